#!/usr/bin/env python3
"""Intake of an independently written breaking change.

usage: tools/seed_intake.py <property id> <worktree> <name> [check args...]
       tools/seed_intake.py <property id> <worktree> <name> --files PATCH DEMO NOTES [check args...]
(the second form takes a saved patch / demonstration / notes instead of the
worktree's uncommitted diff, DEMO.py and NOTES.md)
Verifies in a scratch copy of /repo that (1) the patch applies, (2) the pinned
test command gives the same failing set with and without it, (3) the
demonstration exits 1 with and 0 without the change; then runs ./check <id>
against the changed copy and stores patch.diff, DEMO.py, NOTES.md and
meta.json under /verif/seeded/<name>/.
"""
import json, os, shutil, subprocess, sys, tempfile

def sh(cmd, cwd=None, env=None, timeout=3000):
    p = subprocess.run(cmd, shell=True, cwd=cwd, env=env, capture_output=True, text=True, timeout=timeout)
    return p.returncode, p.stdout + p.stderr

def failing(tree):
    rc, out = sh("/venv/bin/python -m pytest -ra -q -p no:cacheprovider --timeout=900 --continue-on-collection-errors tests", cwd=tree)
    fails = sorted(l.split(" - ")[0] for l in out.splitlines() if l.startswith(("FAILED", "ERROR")))
    summary = [l for l in out.splitlines() if " passed" in l][-1:]
    return fails, summary

def main():
    pid, wt, name = sys.argv[1:4]
    extra = sys.argv[4:]
    demo_src, notes_src = os.path.join(wt, "DEMO.py"), os.path.join(wt, "NOTES.md")
    if extra[:1] == ["--files"]:
        diff = open(extra[1]).read()
        demo_src, notes_src = extra[2], extra[3]
        extra = extra[4:]
    else:
        rc, diff = sh("git diff", cwd=wt)
    assert diff.strip(), "empty diff"
    files = [l[6:] for l in diff.splitlines() if l.startswith("+++ b/")]
    d = tempfile.mkdtemp(prefix="seedcheck-")
    try:
        sh("git -C /repo archive HEAD | tar -x -C %s" % d)
        clean_fails, clean_summary = failing(d)
        shutil.copy(demo_src, os.path.join(d, "DEMO.py"))
        rc0, out0 = sh("/venv/bin/python DEMO.py", cwd=d)
        patch = os.path.join(d, "seed.diff")
        open(patch, "w").write(diff)
        rc, out = sh("patch -p1 -s -i seed.diff", cwd=d)
        assert rc == 0, out
        os.remove(patch)
        mut_fails, mut_summary = failing(d)
        if mut_fails != clean_fails:
            # one repository test is flaky under load: repeat both runs and
            # keep the tests that fail every time
            open(patch, "w").write(diff)
            sh("patch -R -p1 -s -i seed.diff", cwd=d)
            again, s2 = failing(d)
            clean_fails = sorted(set(clean_fails) & set(again))
            clean_summary += s2
            sh("patch -p1 -s -i seed.diff", cwd=d)
            os.remove(patch)
            again, s2 = failing(d)
            mut_fails = sorted(set(mut_fails) & set(again))
            mut_summary += s2
        rc1, out1 = sh("/venv/bin/python DEMO.py", cwd=d)
        env = dict(os.environ, RIG_REPO=d)
        rcq, outq = sh("/verif/check %s --no-evidence --no-regressions %s" % (pid, " ".join(extra)), env=env)
        viol = [l for l in outq.splitlines() if l.startswith(("VIOLATION", "clause "))]
        meta = {
            "property": pid, "name": name, "files_changed": files,
            "tests_same_failing_set": clean_fails == mut_fails,
            "tests_summary_clean": clean_summary, "tests_summary_changed": mut_summary,
            "demo_exit_without_change": rc0, "demo_exit_with_change": rc1,
            "check_quick_exit": rcq, "check_quick_lines": viol[:6],
            "ran": ["pinned pytest command in a scratch copy of /repo HEAD with and without the patch",
                    "DEMO.py with and without the patch",
                    "./check %s --no-evidence --no-regressions %s with RIG_REPO=<changed copy>" % (pid, " ".join(extra))],
        }
        out_dir = os.path.join("/verif/seeded", name)
        os.makedirs(out_dir, exist_ok=True)
        open(os.path.join(out_dir, "patch.diff"), "w").write(diff)
        shutil.copy(demo_src, os.path.join(out_dir, "DEMO.py"))
        if os.path.exists(notes_src):
            shutil.copy(notes_src, os.path.join(out_dir, "NOTES.md"))
        old = {}
        mp = os.path.join(out_dir, "meta.json")
        if os.path.exists(mp):
            old = json.load(open(mp))
        old.update(meta)
        json.dump(old, open(mp, "w"), indent=1)
        print(json.dumps(meta, indent=1))
    finally:
        shutil.rmtree(d, ignore_errors=True)

main()
