#!/usr/bin/env python3
"""Writes /verif/MANIFEST.json from the table below (single source of truth)."""
import json
import os

HERE = os.path.dirname(os.path.dirname(os.path.abspath(__file__)))

# id -> (built, category, technique, level text, level note, design ref)
T = {}


# clauses added after the first version of a check (see DESIGN.md 7.1)
LATER = {
    "C02": " Later clauses: 'scale' (machines of 16-64 chips on a side, "
           "chains of 500-5400 vertices) and 'no-working-chip'; packed "
           "problems for the annealing placers; the same objects placed "
           "twice.",
    "C03": " Later: a 'dead-links' clause (10-30% one-way dead links), a "
           "'broadcast' clause (nets of 20-80 sinks, small radii), caller-"
           "named core resources, and faults recorded on the Machine object "
           "only after a first route() call.",
    "C04": " Later: chips with near-identical tables, and a 'sequence' clause "
           "(tables of one key space minimised one after another) that runs "
           "every case in a fresh-state child (vf/isolate.py).",
    "C05": " Later: a 'sequence' clause (several allocate calls in one "
           "process, fresh-state child per case), quantities beyond 2**53, a "
           "'many-reservations' clause (300-2500 reserved ranges), constraints "
           "of subclasses and equal-but-distinct resource identifiers.",
    "C07": " Later: an 'own-struct-file' clause (struct definitions of the "
           "caller's own with decimal/hexadecimal numbers, a per-core struct "
           "that declares a base, definitions replaced half way); histories "
           "carry on after an SCP error, start with a blackout one time in "
           "six and may meet fatal return codes.",
    "C10": " Later: a 'thousand-hops' clause (a route through every chip of "
           "a mesh of more than a thousand chips).",
    "C12": " Later: a 'tree-in-rounds' clause (one RegionCoreTree read "
           "between rounds of add_core) and requests confined to the corner "
           "at the origin.",
    "C17": " Later: fresh state comes from a fork server (2000 probes per "
           "quick run), order lists and alias dicts are fingerprinted, and an "
           "'edited-machine' clause compares a Machine edited in place after "
           "routing with one built afresh.",
    "C18": " Later: root chips other than (0,0), a machine discovered twice "
           "at different widths, explicit initial contexts, blocks left by "
           "KeyboardInterrupt/SystemExit, lists of boards.",
    "C20": " Later: every history runs in a fresh-state child; refused "
           "sends; option names the boot sets itself; re-used image files; a "
           "boot suspended in a send while another board is booted.",
}


# dimensions of use added in the eleventh and twelfth rounds (DESIGN.md 7.1)
LATEST = {
    "C01": " Latest: single sinks given as Net(source, sink), nets and "
           "constraints of the program's own subclasses, debug logging "
           "switched on.",
    "C02": " Latest: debug logging switched on (root logger at DEBUG), nets "
           "of a Net subclass, single sinks given as the vertex.",
    "C03": " Latest: single sinks given as Net(source, sink).",
    "C04": " Latest: ordered covering in two stages, the second one given "
           "the first one's table and aliases.",
    "C05": " Latest: null reservations slice(a, a).",
    "C06": " Latest: callbacks that are callable collections, still empty "
           "(false) when their reply arrives.",
    "C07": " Latest: blocks at the two ends of the 32-bit address space.",
    "C08": " Latest: a refused assign_fields() is repeated once; a layout "
           "the repetition reports is verified like any other.",
    "C09": " Latest: one file under two spellings in a map; binaries of 254 "
           "and 255 blocks.",
    "C10": " Latest: keys with bits outside their mask; hops that are "
           "instances of a RoutingTree subclass; the loaded list edited in "
           "place and loaded again through the same controller.",
    "C12": " Latest: neighbouring chips with overlapping core sets (more "
           "region words than chips); targets in a defaultdict(set), which "
           "must come back unchanged.",
    "C13": " Latest: truncation warnings turned into errors (a refused "
           "transfer moved the position by exactly the bytes sent); a second "
           "allocation at the same address on another chip stays alive.",
    "C14": " Latest: a silent chip answers again before the same controller "
           "probes once more.",
    "C15": " Latest: the argument count given by position.",
    "C16": " Latest: arrays of 65536-140000 elements (metamorphic: filled "
           "with checked values); formats given by keyword.",
    "C17": " Latest: nets of a Net subclass in every pipeline case drawn "
           "with subclassed constraints.",
    "C18": " Latest: get_system_info's memory reads go to the start chip "
           "named.",
    "C19": " Latest: root chips given by position, by keyword, mixed, or "
           "left out.",
    "C20": " Latest: struct files of the caller's own, with and without an "
           "own image; boot() called with every parameter by position.",
}


def add(pid, built, category, technique, text, note, ref):
    T[pid] = dict(built=built, category=category, technique=technique,
                  text=text + LATER.get(pid, "") + LATEST.get(pid, ""),
                  note=note, ref=ref)


add("C19", True, "exploration",
    "complete enumeration of sizes x root offsets x chips x links against an "
    "explicit 48-chip tile (finite-domain property-based check)",
    "Every function of the SpiNN-5 geometry family is compared with an "
    "independent explicit tile for every machine size enumerated (all tori of "
    "12..48, all ragged sizes up to 14/30), every root offset 0..11^2 (plus "
    "offsets >= 12), every chip and link; the domain is finite per size so the "
    "enumerated part is decided completely.",
    "Trusted: the tile description in vf/oracle/boardtile.py (self-checked to "
    "partition the 12x12 cell). Sizes above 48 are not enumerated.",
    "DESIGN.md section 5, C19")

add("C11", True, "exploration",
    "exhaustive enumeration of small tori with scripted tie-breaks + "
    "Hypothesis sampling of large ones, oracle = BFS graph distance",
    "All tori up to 8x8 (quick) / 16x16 (thorough): every source/destination "
    "pair, three three-axis representations each and every outcome of the "
    "random tie-breaks (rig's module-level random replaced by a scripted "
    "object) are compared with BFS distance; sizes up to 256 are sampled "
    "against the lattice-image formula; mesh functions, link tables and "
    "concentric hexagons are enumerated in windows.",
    "Trusted: vf/oracle/hexgrid.py (BFS and image formula cross-checked at "
    "start-up). Larger tori are sampled, not enumerated.",
    "DESIGN.md section 5, C11")
add("C12", True, "exploration",
    "Hypothesis-generated target sets built from blocks/rectangles/sparse "
    "chips, oracle = expansion of region words with multiplicity",
    "Generated unions of full, nearly-full and straddling blocks are "
    "compressed and every returned (region, mask) pair is expanded under the "
    "documented meaning of the word; the multiset of selected cores must equal "
    "the request exactly once each, in strictly increasing order. All 65536 "
    "single-chip words x 4 levels are enumerated.",
    "Trusted: the region-word semantics transcribed in vf/props/c12.py. "
    "Subsets of the 256x256x18 space are sampled by construction, not "
    "enumerated.",
    "DESIGN.md section 5, C12")
add("C15", True, "exploration",
    "Hypothesis round-trip and differential decoding against a reference "
    "codec + exhaustive per-field value sweeps",
    "Encoding is compared byte for byte with a reference codec written from "
    "the documented layout, decoding with the same and with other argument "
    "counts against the reference decoder, arbitrary datagrams are decoded "
    "and re-encoded; every value of every field up to 16 bits and all 2^16 "
    "port/core byte pairs are enumerated.",
    "Trusted: vf/oracle/sdpcodec.py. Field values outside their width and "
    "non-leading argument patterns are outside the domain.",
    "DESIGN.md section 5, C15")
add("C16", True, "exploration",
    "Hypothesis with floats constructed around range ends, oracle = exact "
    "rational arithmetic",
    "Scalar conversion is compared with clamp(trunc(v*2^f)) computed in exact "
    "arithmetic for floats built +-3 ulp around both range ends of every "
    "format 8-64 bits, monotonicity and the one-step error bound are checked "
    "directly, round trips for all double-representable fixed-point values, "
    "array converters element-wise against the scalar ones incl. dtype and "
    "shape, deprecated variants modulo 2^n.",
    "Trusted: fractions.Fraction, math.nextafter. Values with > 53 "
    "significant bits are outside the round-trip clause by necessity.",
    "DESIGN.md section 5, C16")

add("C04", True, "exploration",
    "Hypothesis-generated tables over few active key bits, oracle = "
    "exhaustive first-match comparison of every key + differential "
    "consistency of the failure report",
    "Orthogonal, generality-ordered and freely ordered tables are minimised "
    "by default-route removal, ordered covering, minimise_table with every "
    "method subset/order and minimise_tables over several chips; the result "
    "is compared with the original under first-match semantics for all "
    "2^active key assignments (route equal and sources included, or "
    "default-routable and unmatched); length, target and the "
    "MinimisationFailedError fields are checked against a run without "
    "target.",
    "Trusted: vf/oracle/firstmatch.py. '!' key bits excluded; more than 10 "
    "active bits not explored.",
    "DESIGN.md section 5, C04")

add("C03", True, "exploration",
    "Hypothesis-generated machines/fault maps/placements/nets, oracle = "
    "structural tree walk + independent strong-connectivity test",
    "Routing trees returned for generated nets on generated machines "
    "(weighted to 1xN/2xN tori, plus a clause with up to 45% dead chips) are "
    "walked node by node: root, each chip and node once, every hop a working "
    "link to the adjacent working chip, leaves exactly the sinks with their "
    "cores or constrained routes. An independent strong-connectivity test "
    "decides whether MachineHasDisconnectedSubregion is permitted.",
    "Trusted: vf/gen/pr.py graph helpers. Interactions between repairs that "
    "need maze-like fault maps are rare under random generation (the fixed "
    "defect needed ~4e5 cases); the regression tier keeps that case.",
    "DESIGN.md section 5, C03")
add("C05", True, "exploration",
    "Hypothesis-generated feasible placements and reservation layouts, "
    "oracle = range predicate; completeness on the property's premise",
    "Placements feasible by construction with global/per-chip reservations "
    "(adjacent, gapped, at the ends), alignments, zero-size requests and "
    "permuted orders are allocated; every range is checked for size, bounds, "
    "alignment, disjointness from reservations and other vertices; with "
    "reservations only at the ends and no alignment the call must succeed.",
    "Trusted: the generator's feasibility bookkeeping. Resource quantities "
    "are small integers.",
    "DESIGN.md section 5, C05")

add("C02", True, "exploration",
    "Hypothesis-generated placement problems per placer configuration, "
    "oracle = feasibility predicate; completeness on the property's premise",
    "For each of the seven placer configurations (SA with Python and C "
    "kernel, Hilbert, RCM, breadth-first, sequential with custom orders, "
    "random) generated problems with dead chips, resource exceptions, "
    "chained/duplicated same-chip groups, location constraints and "
    "reservations are placed; a returned placement must be feasible and "
    "honour every constraint, the only exceptions allowed are the two "
    "documented ones; inside the property's premise every placer must "
    "succeed.",
    "Trusted: the feasibility predicate in vf/gen/problems.py, rig_c_sa. "
    "Termination is only watched by a 120 s alarm (inconclusive, exit 2).",
    "DESIGN.md section 5, C02")

add("C01", True, "exploration",
    "Hypothesis-generated end-to-end problems through all three entry "
    "points, oracle = multicast packet simulator with default routing",
    "Generated graphs/machines/constraints/keys are pushed through place, "
    "allocate, route, table generation and minimisation (by hand with every "
    "placer/method/target choice, through place_and_route_wrapper with a "
    "generated SystemInfo incl. busy cores and tiny free router blocks, and "
    "through the deprecated wrapper); then a packet per net (X bits filled "
    "four ways) is simulated over the resulting tables: delivered exactly "
    "once to every allocated sink core or constrained exit, nowhere else, "
    "only over working links between working chips, never dropped, never "
    "circulating.",
    "Trusted: vf/oracle/mcrouter.py packet semantics (first match, default "
    "routing). Machines up to 8x8 (quick) / 16x16 (thorough).",
    "DESIGN.md section 5, C01")

add("C08", True, "exploration",
    "model-based stateful testing: Hypothesis-generated histories of field "
    "definitions / values / layouts interpreted against a hierarchy model",
    "Histories of add_field (automatic and explicit lengths/positions, tags, "
    "names re-used in sibling scopes), value assignments and assign_fields "
    "calls run on the real BitField and on a model; after every successful "
    "layout all enumerated complete assignments are checked for disjoint "
    "in-range fields, sufficient width, read-back, mask and tag closure and "
    "pairwise non-matching key/masks; definitions that must be rejected are; "
    "completeness is asserted with the bit field sized exactly to the needed "
    "width (single-selector hierarchies).",
    "Trusted: the hierarchy model in vf/props/c08.py. Known finding K1 "
    "(multi-selector fragmentation) is listed in known_findings.json and its "
    "sub-domain excluded from the completeness clause only.",
    "DESIGN.md section 5, C08")

add("C06", True, "fault_enumeration",
    "Hypothesis-generated burst histories x per-datagram fault plans on a "
    "fake network with a virtual clock, oracle = trace invariants",
    "An SCPConnection runs over an in-process fake socket/select/time layer "
    "(installed as module attributes, no hook in rig). For every transmitted "
    "datagram a drawn fault decides: request lost, reply lost, delayed by "
    "0-7.5 timeouts, duplicated, replaced by a retryable or fatal code; late "
    "replies of one burst arrive in later bursts. The recorded trace is "
    "checked for the window bound, retransmission timing/count/identity, "
    "exactly-once callbacks with the command's own reply, and the three "
    "outcomes; a step bound on select() decides termination. A separate "
    "clause wraps the 16-bit sequence counter past an outstanding command.",
    "Trusted: vf/sim/net.py. Requests are never duplicated/reordered by the "
    "network itself. Fault plans are sampled, not enumerated exhaustively.",
    "DESIGN.md section 5, C06")

add("C07", True, "fault_enumeration",
    "Hypothesis-generated memory operations x reply fault plans against a "
    "byte-array memory model of the machine",
    "Reads, writes, fills, struct-field, per-core-field and across-link "
    "accesses with every alignment of start and end, lengths up to 5 "
    "buffers, advertised buffers 16-512 and windows 1-8 run through "
    "MachineController / SCPConnection against a simulated SC&MP whose "
    "memory is the reference: returned bytes, written bytes and a full "
    "before/after comparison of every chip decide byte-exactness, the model "
    "asserts buffer and access-type rules per command; a second clause adds "
    "lost/delayed/duplicated replies and retryable codes.",
    "Trusted: vf/sim/scamp.py, vf/oracle/svstruct.py. Requests are not "
    "duplicated by the network; fatal codes are outside this property.",
    "DESIGN.md section 5, C07")

add("C13", True, "exploration",
    "model-based stateful testing: Hypothesis-generated histories on "
    "file-like views over the simulated machine, oracle = bounded-file model "
    "+ on-the-wire confinement monitor",
    "Histories of seek/read/write/tell/len/slicing/close/with/free on a view "
    "returned by sdram_alloc_as_filelike and on slices of slices are "
    "interpreted against a fixed-length byte-array model; every read/write "
    "command seen by the simulated machine must lie inside the issuing "
    "view's range and a before/after comparison of all memory (guard bytes "
    "around the allocation) shows nothing else changed; truncation warnings, "
    "positions, slice bounds and failure after close/free are checked.",
    "Trusted: vf/sim/scamp.py. seek(n, 2)'s sign convention and the result "
    "of transfers at positions outside [0, len] are deliberately not pinned.",
    "DESIGN.md section 5, C13")

add("C10", True, "exploration",
    "Hypothesis-generated tree sets against an independent traversal; "
    "generated tables loaded into and read back from a model router",
    "(a) Hand-built routing trees (branching, chains, shared key/mask with "
    "equal or different forks, leaves without route) are converted and every "
    "chip's entries compared with an independent traversal (route = exit "
    "directions, sources = entry directions; MultisourceRouteError exactly "
    "when forks differ). (b) Tables of 1-1024 entries over all 24 route bits "
    "are loaded through the three entry points into a simulated router with "
    "empty/fragmented/full free lists: installed entries, order, owner, "
    "nothing else changed, error and no change when the block cannot be "
    "allocated, and read-back equality.",
    "Trusted: vf/sim/scamp.py router/alloc model. Zero-entry tables are not "
    "loaded (undocumented allocator behaviour).",
    "DESIGN.md section 5, C10")

add("C09", True, "fault_enumeration",
    "Hypothesis-generated application maps x per-fill sets of chips that "
    "miss the flood fill, against a machine model that assembles fills and "
    "tracks core states",
    "load_application runs against the simulated machine, which reassembles "
    "every flood fill, asserts its well-formedness (block count/numbering/"
    "size/placement, ordered core selects between start and end, fill ids) "
    "and loads the image on the selected cores of the chips that did not "
    "miss it. Normal return requires every requested core, and no other, to "
    "hold its binary under the app id in the right state and the start "
    "signal to be sent iff not waiting; SpiNNakerLoadingError must name "
    "exactly the cores still missing; retries may only select cores still "
    "missing; the number of fills is bounded.",
    "Trusted: vf/sim/scamp.py flood-fill model, region expansion of C12. "
    "Loss of individual flood-fill packets is not modelled (whole chips miss "
    "a fill).",
    "DESIGN.md section 5, C09")

add("C14", True, "exploration",
    "Hypothesis-generated machine states for the simulated SC&MP, "
    "field-wise comparison of everything probed and derived",
    "A generated machine state (dimensions, dead and silent chips, links, "
    "core counts and states, free-memory/router figures, Ethernet details, "
    "VCPU blocks, chained IOBUFs, router counters, both version encodings) "
    "is installed in the simulated machine; get_system_info and every "
    "individual probe are compared field by field with the state, the "
    "SystemInfo helpers with set definitions, build_machine / "
    "build_core_constraints / target lengths with the description "
    "(reservations disjoint and covering exactly the non-idle cores), and a "
    "placement+allocation on the derived model must avoid dead chips and "
    "busy cores.",
    "Trusted: vf/sim/scamp.py (info reply and P2P table layouts as "
    "documented in rig's decoder comments and the SC&MP docs).",
    "DESIGN.md section 5, C14")

add("C20", True, "exploration",
    "Hypothesis-generated boot histories, oracle = independent struct packer "
    "+ datagram reassembly",
    "Histories of 1-5 boots in one process (boot.boot and "
    "MachineController.boot, presets and arbitrary overrides passed by "
    "keyword / sv_overrides / both / a re-used caller dict, images from 512 "
    "to 32764 bytes) are captured by a listener on the boot port; start/"
    "block/end datagrams, numbering, sizes and byte order are checked, the "
    "reassembled image must equal the file with the configuration area "
    "replaced by the independently packed defaults plus this call's options "
    "only, the returned structs must describe the same values and the "
    "caller's dictionary must be unchanged.",
    "Trusted: vf/oracle/svstruct.py. Mutable default arguments of boot() "
    "are emptied before each case so that cases are independent.",
    "DESIGN.md section 5, C20")

add("C18", True, "exploration",
    "Hypothesis-generated calls of every context-wrapped method in every "
    "passing style + model-based context-block histories, oracle = reference "
    "resolver, destination table and wire-level passing-style invariance",
    "Every method wrapped by use_contextual_arguments (found by "
    "introspection; a method without a recipe fails the run) is called with "
    "each contextual argument passed positionally, by keyword, by an "
    "enclosing context or left to its default, under outer decoy contexts "
    "and unrelated context entries; the datagrams seen by the simulated "
    "machine / BMPs must carry the resolved chip, core, application id and "
    "use the right connection, a call lacking a required argument must raise "
    "TypeError with nothing sent, and the wire must be identical to the same "
    "call with everything explicit. Histories of nested plain and "
    "application blocks, updates and exits by exception check restoration "
    "and the stop signal; discovered connections are checked against the "
    "board tile.",
    "Trusted: vf/sim/scamp.py, vf/sim/bmp.py, vf/oracle/boardtile.py, the "
    "destination table in vf/props/c18.py.",
    "DESIGN.md section 5, C18")

add("C17", True, "exploration",
    "Hypothesis-generated calls with deep argument fingerprints + "
    "metamorphic history test: probe after a generated history vs the same "
    "probe as first call of a fresh interpreter",
    "(A) The generated problems of C01 run stage by stage and a deep "
    "structural fingerprint of every argument (graph, machine, constraints, "
    "placements, allocations, trees, tables, alias dict) is compared before "
    "and after each call. (B) 1-8 library calls with generated arguments "
    "(placers, pipeline, router with memoised rings, minimisers, bit field "
    "histories, controller context changes) are followed by a probe call "
    "whose canonical result must equal the result of the same probe executed "
    "first in a freshly spawned interpreter.",
    "Trusted: the fingerprint function, PYTHONHASHSEED=0 on both sides. "
    "Fresh-interpreter probes cost ~1 s, so the quick tier runs ~100 "
    "histories.",
    "DESIGN.md section 5, C17")


def main():
    checks = []
    na = []
    for pid in ["C%02d" % i for i in range(1, 21)]:
        e = T.get(pid)
        if e is None or not e["built"]:
            na.append({"property_id": pid,
                       "reason": "check not built yet (work in progress; "
                                 "designed in DESIGN.md section 5)"})
            continue
        checks.append({
            "property_id": pid,
            "quick_cmd": "./check %s --tier quick" % pid,
            "thorough_cmd": "./check %s --tier thorough" % pid,
            "evidence_file": "/verif/evidence/%s.json" % pid,
            "replay_cmd_template": "./check %s --replay {path}" % pid,
            "engine": "vf",
            "level_claimed": {"category": e["category"], "text": e["text"],
                              "design_ref": e["ref"]},
            "level_note": e["note"],
            "technique": e["technique"],
        })
    manifest = {
        "version": 1,
        "setup_cmd": "./setup.sh",
        "hooks": {
            "guard": "RIG_VERIF",
            "enable": "no hooks are needed: checks import rig from /repo's "
                      "working tree (PYTHONPATH=/repo) in a fresh interpreter "
                      "and substitute fake socket/select/time module "
                      "attributes from the outside",
            "baseline_off_cmd": "./tools/baseline.sh",
            "source_commits": [],
            "add_only": True,
        },
        "engines": [{
            "name": "vf",
            "path": "/verif/vf",
            "serves_properties": [c["property_id"] for c in checks],
            "kind_free_text": "property-based testing: Hypothesis-driven "
                              "clauses over JSON cases with explicit oracles "
                              "(reference models, simulated SC&MP machine), "
                              "exhaustive enumeration of finite sub-domains, "
                              "Atheris for byte-level decoding",
        }],
        "checks": checks,
        "notes": "Every check: ./check <ID> --tier quick|thorough; exit 0 "
                 "held, 1 VIOLATION (replay file written under "
                 "/verif/replays/<ID>/), 2 harness error. VERIF_SEED selects "
                 "the Hypothesis seeds. Known findings and fixed defects: "
                 "/verif/known_findings.json.",
        "not_applicable": na,
    }
    with open(os.path.join(HERE, "MANIFEST.json"), "w") as f:
        json.dump(manifest, f, indent=1)
    try:
        import jsonschema
        jsonschema.validate(manifest, json.load(
            open("/root/.vp/MANIFEST.schema.json")))
        print("MANIFEST.json valid; %d checks, %d not_applicable"
              % (len(checks), len(na)))
    except ImportError:
        print("MANIFEST.json written (jsonschema not importable)")


if __name__ == "__main__":
    main()
