#!/usr/bin/env python3
"""Writes /verif/MANIFEST.json from the table below (single source of truth)."""
import json
import os

HERE = os.path.dirname(os.path.dirname(os.path.abspath(__file__)))

# id -> (built, category, technique, level text, level note, design ref)
T = {}


def add(pid, built, category, technique, text, note, ref):
    T[pid] = dict(built=built, category=category, technique=technique,
                  text=text, note=note, ref=ref)


add("C19", True, "exploration",
    "complete enumeration of sizes x root offsets x chips x links against an "
    "explicit 48-chip tile (finite-domain property-based check)",
    "Every function of the SpiNN-5 geometry family is compared with an "
    "independent explicit tile for every machine size enumerated (all tori of "
    "12..48, all ragged sizes up to 14/30), every root offset 0..11^2 (plus "
    "offsets >= 12), every chip and link; the domain is finite per size so the "
    "enumerated part is decided completely.",
    "Trusted: the tile description in vf/oracle/boardtile.py (self-checked to "
    "partition the 12x12 cell). Sizes above 48 are not enumerated.",
    "DESIGN.md section 5, C19")


def main():
    checks = []
    na = []
    for pid in ["C%02d" % i for i in range(1, 21)]:
        e = T.get(pid)
        if e is None or not e["built"]:
            na.append({"property_id": pid,
                       "reason": "check not built yet (work in progress; "
                                 "designed in DESIGN.md section 5)"})
            continue
        checks.append({
            "property_id": pid,
            "quick_cmd": "./check %s --tier quick" % pid,
            "thorough_cmd": "./check %s --tier thorough" % pid,
            "evidence_file": "/verif/evidence/%s.json" % pid,
            "replay_cmd_template": "./check %s --replay {path}" % pid,
            "engine": "vf",
            "level_claimed": {"category": e["category"], "text": e["text"],
                              "design_ref": e["ref"]},
            "level_note": e["note"],
            "technique": e["technique"],
        })
    manifest = {
        "version": 1,
        "setup_cmd": "./setup.sh",
        "hooks": {
            "guard": "RIG_VERIF",
            "enable": "no hooks are needed: checks import rig from /repo's "
                      "working tree (PYTHONPATH=/repo) in a fresh interpreter "
                      "and substitute fake socket/select/time module "
                      "attributes from the outside",
            "baseline_off_cmd": "./tools/baseline.sh",
            "source_commits": [],
            "add_only": True,
        },
        "engines": [{
            "name": "vf",
            "path": "/verif/vf",
            "serves_properties": [c["property_id"] for c in checks],
            "kind_free_text": "property-based testing: Hypothesis-driven "
                              "clauses over JSON cases with explicit oracles "
                              "(reference models, simulated SC&MP machine), "
                              "exhaustive enumeration of finite sub-domains, "
                              "Atheris for byte-level decoding",
        }],
        "checks": checks,
        "notes": "Every check: ./check <ID> --tier quick|thorough; exit 0 "
                 "held, 1 VIOLATION (replay file written under "
                 "/verif/replays/<ID>/), 2 harness error. VERIF_SEED selects "
                 "the Hypothesis seeds. Known findings and fixed defects: "
                 "/verif/known_findings.json.",
        "not_applicable": na,
    }
    with open(os.path.join(HERE, "MANIFEST.json"), "w") as f:
        json.dump(manifest, f, indent=1)
    try:
        import jsonschema
        jsonschema.validate(manifest, json.load(
            open("/root/.vp/MANIFEST.schema.json")))
        print("MANIFEST.json valid; %d checks, %d not_applicable"
              % (len(checks), len(na)))
    except ImportError:
        print("MANIFEST.json written (jsonschema not importable)")


if __name__ == "__main__":
    main()
