#!/usr/bin/env python3
"""Record the hand-written part of a seeded change's meta.json and refresh
the machine-made part.

usage: tools/seed_meta.py SPEC.json
SPEC.json: {"<name>": {"detected": bool, "needs": "...", "history": "...",
                       "detected_by": "..." (optional)}, ...}
For every entry whose history says the change was missed at first (or that is
marked "rerun": true) the property's quick check is run again against a
scratch copy with the patch (tools/mut.py, --no-regressions) and the exit code
and first lines are stored.
"""
import json
import os
import subprocess
import sys

HERE = os.path.dirname(os.path.dirname(os.path.abspath(__file__)))


def main():
    spec = json.load(open(sys.argv[1]))
    for name, u in sorted(spec.items()):
        p = os.path.join(HERE, "seeded", name, "meta.json")
        d = json.load(open(p))
        pid = name.split("-")[0]
        rerun = u.pop("rerun", False) or "missed" in u.get("history", "") \
            or "harness" in u.get("history", "")
        if u.get("detected") and not u.get("detected_by") and rerun:
            r = subprocess.run(
                [os.path.join(HERE, "tools", "mut.py"), pid, "--patch",
                 os.path.join(HERE, "seeded", name, "patch.diff"),
                 "--no-regressions"], stdout=subprocess.PIPE,
                stderr=subprocess.STDOUT, text=True)
            if "check_quick_exit_first_intake" not in d:
                d["check_quick_exit_first_intake"] = d.get("check_quick_exit")
            d["check_quick_exit"] = r.returncode
            d["check_quick_lines"] = [
                l[:300] for l in r.stdout.splitlines()
                if l.startswith("clause ") or l.startswith("VIOLATION")][:4]
            print(name, r.returncode, d["check_quick_lines"][:1], flush=True)
        d.update(u)
        with open(p, "w") as f:
            json.dump(d, f, indent=1)
            f.write("\n")


main()
