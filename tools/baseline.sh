#!/bin/bash
# Runs the repository's pinned baseline test command (guard OFF: the verification
# guard variable is unset) and checks that every test listed as stable_pass in
# /root/.vp/BASELINE.json passes.  Exit 0 iff all of them pass.
unset RIG_VERIF
OUT=$(mktemp -d /tmp/rig-baseline.XXXXXX)
trap 'rm -rf "$OUT"' EXIT
cd /repo && /venv/bin/python -m pytest -ra -q -p no:cacheprovider --timeout=900 \
    --continue-on-collection-errors --junitxml="$OUT/junit.xml" >"$OUT/log" 2>&1
tail -n 3 "$OUT/log"
/venv/bin/python - "$OUT/junit.xml" <<'PY'
import json, sys, xml.etree.ElementTree as ET
base = json.load(open('/root/.vp/BASELINE.json'))
root = ET.parse(sys.argv[1]).getroot()
passed, failed = set(), set()
for tc in root.iter('testcase'):
    tid = (tc.get('classname') or '') + '::' + (tc.get('name') or '')
    if tc.find('failure') is not None or tc.find('error') is not None:
        failed.add(tid)
    elif tc.find('skipped') is None:
        passed.add(tid)
passed -= failed
missing = [t for t in base['stable_pass'] if t not in passed]
print('baseline stable_pass: %d, passing now: %d, missing: %d (total passed %d, failed %d)'
      % (len(base['stable_pass']), len(base['stable_pass']) - len(missing), len(missing), len(passed), len(failed)))
for t in missing[:20]:
    print('  MISSING', t)
sys.exit(1 if missing else 0)
PY
