#!/usr/bin/env python3
"""Print a python file without docstrings, comments and blank lines (reading aid)."""
import ast, sys
src = open(sys.argv[1]).read()
tree = ast.parse(src)
skip = set()
for node in ast.walk(tree):
    if isinstance(node, (ast.FunctionDef, ast.ClassDef, ast.Module, ast.AsyncFunctionDef)):
        b = node.body
        if b and isinstance(b[0], ast.Expr) and isinstance(getattr(b[0], 'value', None), ast.Constant) and isinstance(b[0].value.value, str):
            for l in range(b[0].lineno, b[0].end_lineno + 1):
                skip.add(l)
    if isinstance(node, ast.Expr) and isinstance(getattr(node, 'value', None), ast.Constant) and isinstance(node.value.value, str):
        for l in range(node.lineno, node.end_lineno + 1):
            skip.add(l)
lo = int(sys.argv[2]) if len(sys.argv) > 2 else 1
hi = int(sys.argv[3]) if len(sys.argv) > 3 else 10**9
for i, line in enumerate(src.split('\n'), 1):
    if i in skip or not line.strip() or line.strip().startswith('#') or i < lo or i > hi:
        continue
    print("%d:%s" % (i, line))
