#!/usr/bin/env python3
"""Re-run the quick check of every stored seeded change (seeded/<name>/
patch.diff) against a scratch copy of rig with the change applied, and print a
table of caught / missed.  Nothing is written to seeded/; use it to confirm
DESIGN.md section 7.1 after touching a generator.

usage: tools/seeded_sweep.py [-j N] [--seed S] [name-prefix ...]
"""
import json
import os
import subprocess
import sys
from concurrent.futures import ThreadPoolExecutor

HERE = os.path.dirname(os.path.dirname(os.path.abspath(__file__)))


def run(name, seed):
    d = os.path.join(HERE, "seeded", name)
    meta = json.load(open(os.path.join(d, "meta.json")))
    pid = meta.get("property") or name.split("-")[0]
    env = dict(os.environ, VERIF_SEED=str(seed))
    r = subprocess.run([os.path.join(HERE, "tools", "mut.py"), pid, "--patch",
                        os.path.join(d, "patch.diff"), "--no-regressions"],
                       env=env, stdout=subprocess.PIPE,
                       stderr=subprocess.STDOUT, text=True, timeout=3600)
    clause = ""
    for line in r.stdout.splitlines():
        if line.startswith("clause "):
            clause = line[7:90]
            break
    return name, r.returncode, clause, meta.get("detected")


def main():
    args = sys.argv[1:]
    jobs, seed = 3, 1
    while args and args[0].startswith("-"):
        if args[0] == "-j":
            jobs = int(args[1])
        elif args[0] == "--seed":
            seed = int(args[1])
        args = args[2:]
    names = sorted(n for n in os.listdir(os.path.join(HERE, "seeded"))
                   if os.path.exists(os.path.join(HERE, "seeded", n,
                                                  "patch.diff")))
    if args:
        names = [n for n in names if any(n.startswith(a) for a in args)]
    bad = 0
    with ThreadPoolExecutor(jobs) as ex:
        for name, rc, clause, recorded in ex.map(lambda n: run(n, seed),
                                                 names):
            word = {0: "missed", 1: "CAUGHT"}.get(rc, "ERROR %d" % rc)
            flag = ""
            if recorded is not None and bool(recorded) != (rc == 1):
                flag = "   <-- differs from meta.json (detected=%r)" % recorded
                bad += 1
            print("%-14s %-8s %s%s" % (name, word, clause, flag), flush=True)
    return 1 if bad else 0


sys.exit(main())
