#!/usr/bin/env python3
"""Sensitivity helper: run a check against a deliberately broken scratch copy of rig.

usage: tools/mut.py <ID> <relative file> <old text> <new text> [extra check args...]
       tools/mut.py <ID> --patch FILE [extra check args...]
The scratch copy lives under /tmp and is removed afterwards.  Exit code is the
check's exit code (1 = the mutant was caught).
"""
import os, shutil, subprocess, sys, tempfile

def main():
    pid = sys.argv[1]
    d = tempfile.mkdtemp(prefix="rigmut-")
    try:
        shutil.copytree("/repo/rig", os.path.join(d, "rig"),
                        ignore=shutil.ignore_patterns("__pycache__"))
        if sys.argv[2] == "--patch":
            patch = os.path.abspath(sys.argv[3])
            extra = sys.argv[4:]
            subprocess.check_call(["patch", "-p1", "-s", "-d", d, "-i", patch])
        else:
            rel, old, new = sys.argv[2:5]
            extra = sys.argv[5:]
            p = os.path.join(d, rel)
            s = open(p).read()
            if s.count(old) < 1:
                print("mut.py: old text not found"); return 3
            s = s.replace(old, new, 1)
            open(p, "w").write(s)
        env = dict(os.environ, RIG_REPO=d)
        r = subprocess.call(["/verif/check", pid, "--no-evidence"] + extra, env=env)
        print("mut.py: check exit code %d (%s)" % (r, "CAUGHT" if r == 1 else "MISSED" if r == 0 else "HARNESS ERROR"))
        return r
    finally:
        shutil.rmtree(d, ignore_errors=True)

sys.exit(main())
