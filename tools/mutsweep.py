#!/usr/bin/env python3
"""Systematic small-mutant sweep: how sensitive is a property's quick check to
one-token changes of the code the property is anchored in?

usage: tools/mutsweep.py <ID> [-j N] [--jobs-per-check K] [--limit N] [--sample-seed S]
                         [--tests "tests/a.py tests/b.py"] [--out FILE]
                         <rig-relative file>[:func1,func2,...] ...

Every mutant is one syntactic change (comparison operator, arithmetic
operator, and/or, dropped `not`, integer constant +-1, a call/augmented
assignment statement replaced by `pass`) inside the named functions (whole file
when no function is named).  Per mutant, in a scratch copy of /repo's `rig`:
  1. it must compile;
  2. the repository's tests named by --tests must give the same failing set as
     on the unchanged tree (mutants the repository's tests already catch are
     not interesting: `killed-by-tests`);
  3. ./check <ID> --tier quick --no-regressions --no-evidence runs against it:
     exit 1 = `caught`, 0 = `survived`, 2 = `inconclusive`.
One JSON line per mutant is appended to --out (default mutation/<ID>.jsonl);
a summary is printed.  Survivors are candidates for review (equivalent mutant
or gap in the check), nothing here is evidence for a property.
"""
import argparse
import ast
import json
import os
import random
import shutil
import subprocess
import sys
import tempfile
from concurrent.futures import ThreadPoolExecutor

HERE = os.path.dirname(os.path.dirname(os.path.abspath(__file__)))
REPO = os.environ.get("RIG_REPO", "/repo")

CMP = {ast.Lt: ["<="], ast.LtE: ["<"], ast.Gt: [">="], ast.GtE: [">"],
       ast.Eq: ["!="], ast.NotEq: ["=="], ast.In: ["not in"],
       ast.NotIn: ["in"], ast.Is: ["is not"], ast.IsNot: ["is"]}
CMPTOK = {ast.Lt: "<", ast.LtE: "<=", ast.Gt: ">", ast.GtE: ">=",
          ast.Eq: "==", ast.NotEq: "!=", ast.In: "in", ast.NotIn: "not in",
          ast.Is: "is", ast.IsNot: "is not"}
BIN = {ast.Add: ("+", ["-"]), ast.Sub: ("-", ["+"]), ast.Mult: ("*", ["//"]),
       ast.FloorDiv: ("//", ["*"]), ast.Mod: ("%", ["//"]),
       ast.LShift: ("<<", [">>"]), ast.RShift: (">>", ["<<"]),
       ast.BitAnd: ("&", ["|"]), ast.BitOr: ("|", ["&"]),
       ast.BitXor: ("^", ["&"])}


class Src:
    def __init__(self, text):
        self.text = text
        self.lines = text.splitlines(keepends=True)
        self.off = [0]
        for l in self.lines:
            self.off.append(self.off[-1] + len(l.encode("utf8")))
        self.bytes = text.encode("utf8")

    def pos(self, lineno, col):
        return self.off[lineno - 1] + col

    def span(self, node):
        return (self.pos(node.lineno, node.col_offset),
                self.pos(node.end_lineno, node.end_col_offset))


def find_token(src, lo, hi, tok):
    """position of operator token `tok` in bytes [lo, hi) (outside brackets
    and strings is guaranteed by the caller: the gap between two operands)"""
    gap = src.bytes[lo:hi].decode("utf8")
    i = gap.find(tok)
    if i < 0:
        return None
    return lo + len(gap[:i].encode("utf8"))


def mutants_of(text, funcs):
    src = Src(text)
    tree = ast.parse(text)
    out = []   # (lineno, kind, start, end, replacement)

    def inside(node):
        out_nodes = []
        if not funcs:
            return [tree]
        for n in ast.walk(tree):
            if isinstance(n, (ast.FunctionDef, ast.AsyncFunctionDef, ast.ClassDef)) \
                    and n.name in funcs:
                out_nodes.append(n)
        return out_nodes

    seen = set()
    for root in inside(tree):
        for n in ast.walk(root):
            if id(n) in seen:
                continue
            seen.add(id(n))
            if isinstance(n, ast.Compare):
                left = n.left
                for op, right in zip(n.ops, n.comparators):
                    lo = src.span(left)[1]
                    hi = src.span(right)[0]
                    tok = CMPTOK.get(type(op))
                    p = find_token(src, lo, hi, tok) if tok else None
                    if p is not None:
                        for rep in CMP[type(op)]:
                            out.append((n.lineno, "cmp %s->%s" % (tok, rep),
                                        p, p + len(tok), rep))
                    left = right
            elif isinstance(n, ast.BinOp) and type(n.op) in BIN:
                if isinstance(n.left, ast.Constant) and isinstance(n.left.value, str):
                    continue     # string formatting
                tok, reps = BIN[type(n.op)]
                lo = src.span(n.left)[1]
                hi = src.span(n.right)[0]
                p = find_token(src, lo, hi, tok)
                if p is not None:
                    for rep in reps:
                        out.append((n.lineno, "bin %s->%s" % (tok, rep),
                                    p, p + len(tok), rep))
            elif isinstance(n, ast.BoolOp):
                tok = "and" if isinstance(n.op, ast.And) else "or"
                rep = "or" if tok == "and" else "and"
                for a, b in zip(n.values, n.values[1:]):
                    lo = src.span(a)[1]
                    hi = src.span(b)[0]
                    p = find_token(src, lo, hi, tok)
                    if p is not None:
                        out.append((n.lineno, "bool %s->%s" % (tok, rep),
                                    p, p + len(tok), rep))
            elif isinstance(n, ast.UnaryOp) and isinstance(n.op, ast.Not):
                s, e = src.span(n)
                os_, oe = src.span(n.operand)
                out.append((n.lineno, "drop not", s, os_, ""))
            elif isinstance(n, ast.Constant) and type(n.value) is int \
                    and not isinstance(n.value, bool):
                s, e = src.span(n)
                lit = src.bytes[s:e].decode()
                if lit.startswith(("0x", "0X", "0b", "0o")) and n.value > 0xFF:
                    continue
                for d in (1, -1):
                    if n.value == 0 and d == -1:
                        continue
                    out.append((n.lineno, "const %s->%d" % (lit, n.value + d),
                                s, e, "(%d)" % (n.value + d)))
            elif isinstance(n, (ast.Expr, ast.AugAssign)):
                if isinstance(n, ast.Expr) and not isinstance(n.value, ast.Call):
                    continue
                s, e = src.span(n)
                stmt = src.bytes[s:e].decode()
                if "\n" in stmt and len(stmt) > 400:
                    continue
                if isinstance(n, ast.Expr) and isinstance(n.value.func, ast.Attribute) \
                        and n.value.func.attr in ("debug", "info", "warning", "warn"):
                    continue
                out.append((n.lineno, "drop stmt `%s`" % " ".join(stmt.split())[:60],
                            s, e, "pass"))
    res = []
    for lineno, kind, s, e, rep in sorted(set(out)):
        b = src.bytes[:s] + rep.encode() + src.bytes[e:]
        try:
            t = b.decode("utf8")
            compile(t, "<mutant>", "exec")
        except Exception:
            continue
        res.append({"line": lineno, "kind": kind, "text": t,
                    "orig_line": src.lines[lineno - 1].strip()[:120]})
    return res


def sh(cmd, cwd=None, env=None, timeout=3600):
    try:
        p = subprocess.run(cmd, cwd=cwd, env=env, stdout=subprocess.PIPE,
                           stderr=subprocess.STDOUT, text=True, timeout=timeout)
        return p.returncode, p.stdout
    except subprocess.TimeoutExpired as e:
        return 124, (e.stdout or b"").decode("utf8", "replace") if isinstance(e.stdout, bytes) else (e.stdout or "")


def failing(tree, tests):
    env = dict(os.environ, PYTHONDONTWRITEBYTECODE="1", PYTHONHASHSEED="0")
    rc, out = sh(["/venv/bin/python", "-m", "pytest", "-q", "-x", "-p", "no:cacheprovider",
                  "--timeout=300", "-ra"] + tests, cwd=tree, env=env, timeout=1200)
    return sorted(l.split(" - ")[0] for l in out.splitlines()
                  if l.startswith(("FAILED", "ERROR")))


def failing_all(tree, tests):
    env = dict(os.environ, PYTHONDONTWRITEBYTECODE="1", PYTHONHASHSEED="0")
    rc, out = sh(["/venv/bin/python", "-m", "pytest", "-q", "-p", "no:cacheprovider",
                  "--timeout=300", "-ra"] + tests, cwd=tree, env=env, timeout=1800)
    return sorted(l.split(" - ")[0] for l in out.splitlines()
                  if l.startswith(("FAILED", "ERROR")))


def make_tree(rel, text):
    d = tempfile.mkdtemp(prefix="rigmsw-")
    shutil.copytree(os.path.join(REPO, "rig"), os.path.join(d, "rig"),
                    ignore=shutil.ignore_patterns("__pycache__"))
    shutil.copytree(os.path.join(REPO, "tests"), os.path.join(d, "tests"),
                    ignore=shutil.ignore_patterns("__pycache__"))
    for f in ("setup.cfg", "tox.ini", "pytest.ini", "conftest.py"):
        if os.path.exists(os.path.join(REPO, f)):
            shutil.copy(os.path.join(REPO, f), d)
    if rel:
        open(os.path.join(d, rel), "w").write(text)
    return d


def one(args, pid, rel, m, base_fail, tests, jobs, seed):
    d = make_tree(rel, m["text"])
    rec = {"property": pid, "file": rel, "line": m["line"], "kind": m["kind"],
           "orig_line": m["orig_line"]}
    try:
        if tests:
            f = failing_all(d, tests)
            if f != base_fail:
                rec["verdict"] = "killed-by-tests"
                return rec
        env = dict(os.environ, RIG_REPO=d, VERIF_JOBS=str(jobs), VERIF_SEED=str(seed))
        rc, out = sh([os.path.join(HERE, "check"), pid, "--tier", "quick",
                      "--no-evidence", "--no-regressions"], env=env, timeout=3000)
        rec["check_exit"] = rc
        rec["verdict"] = {1: "caught", 0: "survived"}.get(rc, "inconclusive")
        rec["lines"] = [l[:200] for l in out.splitlines()
                        if l.startswith(("clause ", "VIOLATION", "harness"))][:3]
        return rec
    finally:
        shutil.rmtree(d, ignore_errors=True)


def main():
    ap = argparse.ArgumentParser()
    ap.add_argument("pid")
    ap.add_argument("targets", nargs="+")
    ap.add_argument("-j", type=int, default=4)
    ap.add_argument("--jobs-per-check", type=int, default=4)
    ap.add_argument("--limit", type=int, default=0)
    ap.add_argument("--sample-seed", type=int, default=1)
    ap.add_argument("--seed", type=int, default=1)
    ap.add_argument("--tests", default="")
    ap.add_argument("--out", default="")
    ap.add_argument("--list", action="store_true")
    a = ap.parse_args()
    tests = a.tests.split()
    todo = []
    for t in a.targets:
        rel, _, fn = t.partition(":")
        funcs = set(fn.split(",")) if fn else set()
        text = open(os.path.join(REPO, rel)).read()
        for m in mutants_of(text, funcs):
            todo.append((rel, m))
    if a.limit and len(todo) > a.limit:
        random.Random(a.sample_seed).shuffle(todo)
        todo = sorted(todo[:a.limit], key=lambda x: (x[0], x[1]["line"], x[1]["kind"]))
    print("%d mutants" % len(todo), flush=True)
    if a.list:
        for rel, m in todo:
            print(rel, m["line"], m["kind"], "|", m["orig_line"])
        return 0
    base = make_tree(None, None)
    try:
        base_fail = failing_all(base, tests) if tests else []
    finally:
        shutil.rmtree(base, ignore_errors=True)
    out = a.out or os.path.join(HERE, "mutation", a.pid + ".jsonl")
    os.makedirs(os.path.dirname(out), exist_ok=True)
    counts = {}
    with ThreadPoolExecutor(a.j) as ex, open(out, "a") as fo:
        futs = [ex.submit(one, a, a.pid, rel, m, base_fail, tests,
                          a.jobs_per_check, a.seed) for rel, m in todo]
        for fu in futs:
            r = fu.result()
            counts[r["verdict"]] = counts.get(r["verdict"], 0) + 1
            fo.write(json.dumps(r, sort_keys=True) + "\n")
            fo.flush()
            print(r["verdict"], r["file"], r["line"], r["kind"], "|", r["orig_line"][:70],
                  flush=True)
    print("summary", a.pid, json.dumps(counts, sort_keys=True))
    return 0


sys.exit(main())
