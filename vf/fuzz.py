"""Coverage-guided fuzz targets (Atheris / libFuzzer), thorough tier only.

Run as:  python -m vf.fuzz <target> <stats file> [libFuzzer options] [corpus]
A target decodes the fuzzer's bytes into the same JSON case the Hypothesis
clause uses and calls the clause's check(case), so the semantic oracle lives
inside the target; a Violation is re-raised and libFuzzer stores the input.
"""
import base64
import json
import os
import sys


def decode_c15(data):
    if len(data) < 1:
        return None
    n_args = data[0] % 5
    flag = [None, None, 0x87, 0x07][(data[0] >> 3) % 4]
    body = bytes(data[1:])
    if len(body) < 14:
        body = body + bytes(14 - len(body))
    return {"bytes": base64.b64encode(body[:400]).decode(), "n_args": n_args,
            "flag": flag}


def decode_c04(data):
    if len(data) < 3:
        return None
    n_bits = 1 + data[0] % 6
    target = None if data[1] & 0x80 else data[1] % 12
    fn = ["oc", "oc_raw", "rdr"][data[2] % 3]
    bits = list(range(n_bits))
    routes = [[0], [3], [1, 7], [8], [2, 5], [6]]
    entries = []
    i = 3
    while i + 2 <= len(data) and len(entries) < 24:
        a, b = data[i], data[i + 1]
        i += 2
        pat = ""
        v = a | (b << 8)
        for k in range(n_bits):
            pat += "01XX"[(v >> (2 * k)) & 3]
        kind = (b >> 4) & 7
        if kind == 0:
            s = b & 7
            s %= 6
            route, sources = [(s + 3) % 6], [s]
        else:
            route = routes[kind % len(routes)]
            sources = [[None], [0], [1, 2], [None, 4]][(b >> 2) & 3]
        entries.append({"pat": pat, "route": route, "sources": sources})
    if fn != "rdr":
        entries.sort(key=lambda e: e["pat"].count("X"))
    table = {"bits": bits, "const_mask": 0xffffffff & ~((1 << n_bits) - 1),
             "const_key": 0xa5a5a500 & ~((1 << n_bits) - 1), "kind":
             "generality" if fn != "rdr" else "free", "entries": entries}
    return {"table": table, "fn": fn, "target": target}


TARGETS = {
    "c15": ("vf.props.c15", "check_bytes", decode_c15,
            ["rig.machine_control.packets"]),
    "c04": ("vf.props.c04", "check_fuzzed", decode_c04,
            ["rig.routing_table.ordered_covering",
             "rig.routing_table.remove_default_routes",
             "rig.routing_table.utils"]),
}


def main():
    import atheris
    target, stats_path = sys.argv[1], sys.argv[2]
    modname, fname, decode, instrument = TARGETS[target]
    with atheris.instrument_imports(include=instrument):
        import importlib
        for m in instrument:
            importlib.import_module(m)
    mod = importlib.import_module(modname)
    check = getattr(mod, fname)
    from vf.core import Violation
    stats = {"executions": 0, "decoded": 0, "nontrivial": 0}

    def flush():
        with open(stats_path, "w") as f:
            json.dump(stats, f)

    def one(data):
        stats["executions"] += 1
        case = decode(data)
        if case is None:
            return
        stats["decoded"] += 1
        try:
            out = check(case)
        except Violation:
            flush()
            raise
        if out and out.get("nontrivial"):
            stats["nontrivial"] += 1
        if stats["executions"] % 2000 == 0:
            flush()

    atheris.Setup([sys.argv[0]] + sys.argv[3:], one)
    flush()
    atheris.Fuzz()


if __name__ == "__main__":
    main()
