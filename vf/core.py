"""Core types shared by the property modules and the runner."""
import hashlib
import json
import traceback


class Violation(Exception):
    """The code under test broke a clause of the property."""

    def __init__(self, message, details=None):
        Exception.__init__(self, message)
        self.message = message
        self.details = details


class Clause(object):
    """One executable clause of a property.

    strategy(tier) -> Hypothesis strategy producing a JSON-able *case*
    check(case)    -> outcome dict (may contain 'classes': [labels],
                      'documented': bool, 'nontrivial': bool); raises
                      Violation when the clause fails
    rule           -> text of the non-triviality rule
    examples       -> {'quick': n, 'thorough': n} examples *per shard*
    shards         -> {'quick': n, 'thorough': n}
    enumerate(tier, shard, nshards) -> iterator of cases (finite enumeration
                      instead of Hypothesis) when given
    """

    def __init__(self, name, check, strategy=None, rule="", examples=None,
                 shards=None, enumerate=None, exhaustive=False,
                 max_shrink_s=None, fuzz=None, isolate=False, cov=None):
        self.name = name
        self.check = check
        # isolate: every case runs in a child forked from a process that has
        # only imported the library (vf/isolate.py) - for clauses about what
        # calls leave behind in the process
        self.isolate = isolate
        self.property_id = None      # set by the runner
        self.strategy = strategy
        self.rule = rule
        self.examples = examples or {"quick": 500, "thorough": 5000}
        self.shards = shards or {"quick": 4, "thorough": 16}
        self.enumerate = enumerate
        self.exhaustive = exhaustive
        self.max_shrink_s = max_shrink_s or {"quick": 40, "thorough": 240}
        # fuzz: {"target": name in vf.fuzz.TARGETS, "runs": {tier: n},
        #        "corpus": [bytes, ...], "max_len": n}  (Atheris campaign)
        self.fuzz = fuzz
        # cov: None = default coverage-guided campaigns over the strategy in
        # the thorough tier (vf/covfuzz.py); False = none; or
        # {"quick": runs, "thorough": runs, "shards": n}
        self.cov = cov

    def run(self, case):
        """check(case), isolated if the clause asks for it."""
        if self.isolate:
            from vf import isolate
            return isolate.run(self.property_id, self.name, case)
        return self.check(case)


def canonical(case):
    return json.dumps(case, sort_keys=True, separators=(",", ":"),
                      default=repr)


def case_hash(case):
    return hashlib.sha1(canonical(case).encode("utf8")).hexdigest()[:16]


class sut(object):
    """Context manager around calls into the code under test.

    Exceptions of the `allowed` types propagate (the caller handles them as
    documented outcomes); Violation propagates; anything else is converted
    into a Violation "undeclared exception" carrying the traceback, so an
    exception raised by rig is never mistaken for a harness error.
    """

    def __init__(self, what, allowed=()):
        self.what = what
        self.allowed = tuple(allowed)

    def __enter__(self):
        return self

    def __exit__(self, et, ev, tb):
        if et is None:
            return False
        if issubclass(et, Violation) or issubclass(et, self.allowed):
            return False
        if issubclass(et, (KeyboardInterrupt, SystemExit, MemoryError)):
            return False
        if issubclass(et, (HarnessError, Inconclusive)):
            return False
        text = "".join(traceback.format_exception(et, ev, tb))
        raise Violation(
            "%s: undeclared exception %s: %s" % (self.what, et.__name__, ev),
            {"traceback": text[-4000:]})


class HarnessError(Exception):
    pass


class Inconclusive(BaseException):
    """A time budget was hit: no verdict (never reported as a violation)."""


def require(cond, message, details=None):
    if not cond:
        raise Violation(message, details)
