"""A model of a Board Management Processor answering SCP."""
import struct

from vf.sim.scamp import _reply, RC_OK, RC_CMD


class BMP(object):
    def __init__(self, name, buffer_size=256):
        self.name = name
        self.buffer_size = buffer_size
        self.log = []
        self.fpga = {}              # (board, fpga, addr) -> value
        self.power = {}
        self.leds = []

    def handle(self, data, dest):
        flags, tag, dpc, spc, dy, dx, sy, sx = struct.unpack_from("<8B", data,
                                                                   2)
        cmd, seq = struct.unpack_from("<2H", data, 10)
        a1, a2, a3 = struct.unpack_from("<3I", data, 14)
        payload = data[26:]
        board = dpc & 0x1f
        self.log.append({"conn": self.name, "x": dx, "y": dy, "p": board,
                         "cmd": cmd, "arg1": a1, "arg2": a2, "arg3": a3,
                         "data": bytes(payload), "raw": bytes(data)})
        if cmd == 0:
            arg1 = (1 << 24) | (0 << 16) | (board << 8) | board
            return [_reply(data, RC_OK, (arg1, (203 << 16) | self.buffer_size,
                                         1400000000),
                           b"BC&MP/Spin5-BMP\0")]
        if cmd == 57:
            self.power[a2] = a1 & 1
            return [_reply(data, RC_OK)]
        if cmd == 25:
            self.leds.append((a1, a2))
            return [_reply(data, RC_OK)]
        if cmd == 17:
            v = self.fpga.get((board, a3, a1), 0x12340000 | (a1 & 0xffff))
            return [_reply(data, RC_OK, (), struct.pack("<I", v))]
        if cmd == 18:
            self.fpga[(board, a3, a1)] = struct.unpack("<I", payload[:4])[0]
            return [_reply(data, RC_OK)]
        if cmd == 48:
            adc = struct.pack("<8H4h4h4hII", 0, 1, 2, 3, 4, 5, 6, 7, 256, 512,
                              0, 0, -0x8000, 300, 0, 0, -1, 4000, 0, 0, 0, 0)
            return [_reply(data, RC_OK, (), adc)]
        return [_reply(data, RC_CMD)]
