"""Virtual clock, fake socket / select / time modules and a network with a
per-datagram fault plan.

rig's machine-control modules use `socket`, `select` and `time` through
module attributes, so a check replaces those attributes (from the outside,
no hook in rig) with the objects created by `Harness.install()`.
"""
import heapq
import importlib


class StepLimit(Exception):
    """The code under test polled the network more often than any terminating
    run could (the harness owns the clock, so this is non-termination)."""


class VirtualClock(object):
    def __init__(self, start=1000000.0):
        self.now = start
        self.sleeps = []

    def time(self):
        return self.now

    def sleep(self, dt):
        self.sleeps.append(dt)
        if len(self.sleeps) > 200000:
            raise StepLimit("more than 200000 sleep() calls")
        if dt > 0:
            self.now += dt


class FakeSocket(object):
    def __init__(self, net):
        self.net = net
        self.dest = None
        self.inbox = []          # heap of (deliver_time, order, bytes)
        self.closed = False
        self.blocking = True
        self.timeout = None
        self.ident = len(net.sockets)
        net.sockets.append(self)

    # -- API used by rig
    def connect(self, addr):
        self.dest = (addr[0], addr[1])

    def setblocking(self, flag):
        self.blocking = bool(flag)

    def settimeout(self, t):
        self.timeout = t

    def setsockopt(self, *a):
        pass

    def bind(self, addr):
        self.bound = addr

    def getsockname(self):
        return ("127.0.0.1", 50000 + self.ident)

    def fileno(self):
        return 1000 + self.ident

    def send(self, data):
        self.net.maybe_refuse(self, data)
        self.net.transmit(self, self.dest, bytes(data))
        return len(data)

    def sendto(self, data, addr):
        self.net.maybe_refuse(self, data)
        self.net.transmit(self, (addr[0], addr[1]), bytes(data))
        return len(data)

    def recv(self, n):
        if self.inbox and self.inbox[0][0] <= self.net.clock.now:
            t, _, data = heapq.heappop(self.inbox)
            self.net.delivered.append((self.net.clock.now, self.ident, data))
            return data[:n]
        if not self.blocking or self.timeout == 0:
            raise BlockingIOError(11, "Resource temporarily unavailable")
        # blocking receive: wait for the next datagram (or time out)
        if self.inbox:
            t, _, data = heapq.heappop(self.inbox)
            if self.timeout is None or t <= self.net.clock.now + self.timeout:
                self.net.clock.now = max(self.net.clock.now, t)
                self.net.delivered.append((self.net.clock.now, self.ident,
                                           data))
                return data[:n]
            heapq.heappush(self.inbox, (t, _, data))
        if self.timeout is not None:
            self.net.clock.now += self.timeout
        raise self.net.socket_module.timeout("timed out")

    def close(self):
        self.closed = True


class FakeSocketModule(object):
    AF_INET = 2
    SOCK_DGRAM = 2
    SOL_SOCKET = 1
    SO_REUSEADDR = 2

    class timeout(IOError):
        pass

    error = IOError

    def __init__(self, net):
        self.net = net
        net.socket_module = self

    def socket(self, family=2, kind=2, *a):
        return FakeSocket(self.net)

    def gethostbyname(self, name):
        return self.net.hostnames.get(name, name)

    def inet_aton(self, s):
        return bytes(int(p) for p in s.split("."))


class FakeSelectModule(object):
    def __init__(self, net):
        self.net = net

    def select(self, rlist, wlist, xlist, timeout=None):
        net = self.net
        net.select_calls += 1
        if net.select_limit is not None and \
                net.select_calls > net.select_limit:
            raise StepLimit("more than %d select() calls" % net.select_limit)
        now = net.clock.now
        ready = [s for s in rlist if s.inbox and s.inbox[0][0] <= now]
        if ready:
            net.clock.now = now + net.epsilon
            return ready, [], []
        nxt = [s.inbox[0][0] for s in rlist if s.inbox]
        horizon = None if timeout is None else now + max(timeout, 0.0)
        if nxt and (horizon is None or min(nxt) <= horizon):
            net.clock.now = max(now + net.epsilon, min(nxt))
            return [s for s in rlist
                    if s.inbox and s.inbox[0][0] <= net.clock.now], [], []
        if horizon is None:
            raise StepLimit("select() without timeout and nothing in flight")
        net.clock.now = max(now + net.epsilon, horizon)
        return [], [], []


class Perfect(object):
    """Fault plan that never interferes."""

    def request(self, net, sock, dest, data):
        return {"lost": False}

    def replies(self, net, sock, dest, data, replies):
        return [(0.0, r) for r in replies]


class Network(object):
    """Connects FakeSockets to endpoints.  Endpoints are objects with
    handle(data, source) -> [reply bytes, ...]."""

    def __init__(self, clock=None, plan=None):
        self.clock = clock or VirtualClock()
        self.plan = plan or Perfect()
        self.endpoints = {}        # (host, port) -> endpoint
        self.hostnames = {}
        self.sockets = []
        self.sent = []             # (time, socket ident, dest, bytes)
        self.delivered = []        # (time, socket ident, bytes)
        self.order = 0
        self.select_calls = 0
        self.select_limit = 2000000
        self.epsilon = 1e-6
        self.latency = 0.0
        self.send_fault = None

    def attach(self, host, port, endpoint):
        self.endpoints[(host, port)] = endpoint

    def maybe_refuse(self, sock, data):
        """send_fault(sock, data) -> exception to raise instead of sending
        (as the kernel does when an ICMP error is pending) or None."""
        if self.send_fault is not None:
            exc = self.send_fault(sock, data)
            if exc is not None:
                raise exc

    def transmit(self, sock, dest, data):
        self.sent.append((self.clock.now, sock.ident, dest, data))
        ep = self.endpoints.get(dest)
        decision = self.plan.request(self, sock, dest, data)
        if ep is None or decision.get("lost"):
            return
        replies = ep.handle(data, dest)
        for delay, reply in self.plan.replies(self, sock, dest, data,
                                              replies or []):
            self.order += 1
            heapq.heappush(sock.inbox, (self.clock.now + self.latency + delay,
                                        self.order, reply))


RIG_NET_MODULES = ["rig.machine_control.scp_connection",
                   "rig.machine_control.machine_controller",
                   "rig.machine_control.bmp_controller",
                   "rig.machine_control.boot"]


class Harness(object):
    """Installs the fake socket/select/time objects into rig's modules for
    the duration of a `with` block (and restores the real ones afterwards)."""

    def __init__(self, plan=None):
        self.net = Network(plan=plan)
        self.clock = self.net.clock
        self.socket = FakeSocketModule(self.net)
        self.select = FakeSelectModule(self.net)
        self.saved = []

    def __enter__(self):
        for name in RIG_NET_MODULES:
            mod = importlib.import_module(name)
            for attr, obj in (("socket", self.socket),
                              ("select", self.select), ("time", self.clock)):
                if hasattr(mod, attr):
                    self.saved.append((mod, attr, getattr(mod, attr)))
                    setattr(mod, attr, obj)
        return self

    def __exit__(self, *a):
        for mod, attr, old in self.saved:
            setattr(mod, attr, old)
        self.saved = []
        return False
