"""Glue: a simulated machine reachable through the fake network."""
from vf.sim import net as simnet
from vf.sim import scamp


class World(object):
    """with World(machine) as w: mc = w.controller() ..."""

    def __init__(self, machine, plan=None, hosts=None):
        self.machine = machine
        self.h = simnet.Harness(plan=plan)
        self.net = self.h.net
        self.clock = self.h.clock
        # host name -> ethernet chip
        self.hosts = hosts or {"spinn-0-0": machine.root}
        for host, chip in self.hosts.items():
            self.net.attach(host, 17893, machine.endpoint(chip, host))

    def add_host(self, host, chip):
        self.hosts[host] = chip
        self.net.attach(host, 17893, self.machine.endpoint(chip, host))

    def __enter__(self):
        self.h.__enter__()
        return self

    def __exit__(self, *a):
        return self.h.__exit__(*a)

    def controller(self, host="spinn-0-0", **kw):
        from rig.machine_control import MachineController
        return MachineController(host, **kw)
