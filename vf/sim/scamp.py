"""A model of the machine side of the SCP protocol (SC&MP / SARK), written
from rig's docstrings, consts.py, the struct file and the SpiNNaker
documentation.  It answers what rig sends as a machine would and records
protocol violations (malformed commands) instead of silently accepting them.
"""
import struct

from vf.oracle import svstruct
from vf.props.c12 import expand as expand_region

LINK_VEC = {0: (1, 0), 1: (1, 1), 2: (0, 1), 3: (-1, 0), 4: (-1, -1),
            5: (0, -1)}

RC_OK, RC_CMD, RC_ARG, RC_ROUTE, RC_CPU = 0x80, 0x83, 0x84, 0x87, 0x88

CMD = dict(sver=0, read=2, write=3, fill=5, link_read=17, link_write=18,
           nnp=20, signal=22, ffd=23, led=25, iptag=26, alloc_free=28,
           router=29, info=31)

PAGE = 4096

SDRAM_BASE = 0x60240000
SDRAM_SYS = 0x67800000        # staging buffer (sv->sdram_sys)
RTR_COPY = 0x67a00000
ALLOC_TAG = 0x67b00000
VCPU_BASE = 0xe5007000
RTR_P2P = 0xe1010000
RTR_DIAG = 0xe1000300
IOBUF_AREA = 0x67c00000


class Memory(object):
    """Sparse byte memory of one chip."""

    def __init__(self):
        self.pages = {}

    def read(self, addr, n):
        out = bytearray(n)
        i = 0
        while i < n:
            a = (addr + i) & 0xffffffff
            p, off = divmod(a, PAGE)
            k = min(n - i, PAGE - off)
            page = self.pages.get(p)
            if page is not None:
                out[i:i + k] = page[off:off + k]
            i += k
        return bytes(out)

    def write(self, addr, data):
        i = 0
        n = len(data)
        while i < n:
            a = (addr + i) & 0xffffffff
            p, off = divmod(a, PAGE)
            k = min(n - i, PAGE - off)
            page = self.pages.get(p)
            if page is None:
                page = self.pages[p] = bytearray(PAGE)
            page[off:off + k] = data[i:i + k]
            i += k

    def snapshot(self):
        return dict((p, bytes(b)) for p, b in self.pages.items())

    def diff(self, snap):
        """[(address, old byte, new byte)] for bytes that differ."""
        out = []
        zero = bytes(PAGE)
        for p in set(self.pages) | set(snap):
            a = bytes(self.pages.get(p, zero))
            b = snap.get(p, zero)
            if a != b:
                for i in range(PAGE):
                    if a[i] != b[i]:
                        out.append((p * PAGE + i, b[i], a[i]))
        return sorted(out)


class Core(object):
    def __init__(self, state=15, app_id=0):
        self.state = state
        self.app_id = app_id
        self.image = None
        self.loaded_by = None


class Chip(object):
    def __init__(self, machine, x, y, num_cores=18):
        self.machine = machine
        self.x, self.y = x, y
        self.mem = Memory()
        self.cores = [Core() for _ in range(18)]
        self.num_cores = num_cores
        self.cores[0].state = 7
        self.links = set(range(6))
        self.silent = False
        self.eth_up = False
        self.ip = (0, 0, 0, 0)
        self.local_eth = (255, 255)
        self.free_sdram = 119275492
        self.free_sram = 22240
        self.router = [None] * 1024          # (route, key, mask, app, core)
        self.rtr_free = [(1, 1023)]          # [(start, length)]
        self.rtr_blocks = {}                 # start -> (length, app)
        self.heap_next = SDRAM_BASE
        self.heap_limit = SDRAM_BASE + (64 << 20)
        self.allocs = {}                     # ptr -> (size, app, tag)
        self.tags = {}                       # (app, tag) -> ptr
        self.iptags = {}
        self.leds = {}

    # -- memory image of system structures
    def sv_write(self, field, value):
        st = self.machine.structs["sv"]
        f = st.fields[field]
        self.mem.write(st.base + f.offset, f.pack(value))

    def vcpu_addr(self, p, field=None):
        st = self.machine.structs["vcpu"]
        base = (self.machine.vcpu_base if getattr(self, "vcpu_base", None)
                is None else self.vcpu_base) + st.size * p
        return base if field is None else base + st.fields[field].offset

    def sync_system_memory(self, router=True, p2p=True):
        """Write the chip's state into the memory rig reads it from."""
        m = self.machine
        self.sv_write("p2p_addr", (self.x << 8) | self.y)
        self.sv_write("p2p_dims", (m.width << 8) | m.height)
        self.sv_write("eth_addr", (self.local_eth[0] << 8) | self.local_eth[1])
        self.sv_write("eth_up", 1 if self.eth_up else 0)
        self.sv_write("ip_addr", struct.unpack("<I", bytes(self.ip))[0])
        self.sv_write("num_cpus", self.num_cores)
        self.sv_write("iobuf_size", m.iobuf_size)
        self.sv_write("vcpu_base", m.vcpu_base if getattr(
            self, "vcpu_base", None) is None else self.vcpu_base)
        self.sv_write("sdram_sys", SDRAM_SYS)
        self.sv_write("sdram_base", SDRAM_BASE)
        self.sv_write("rtr_copy", self.rtr_copy_addr())
        self.sv_write("alloc_tag", ALLOC_TAG)
        self.sv_write("p2p_root", (m.root[0] << 8) | m.root[1])
        for p in range(18):
            self.sync_core(p)
        if router:
            self.sync_router()
        # P2P table: 3 bits per entry, 8 entries per word, by column
        for col in range(m.width if p2p else 0):
            words = []
            for row0 in range(0, 256, 8):
                w = 0
                for e in range(8):
                    w |= m.p2p_entry(self, col, row0 + e) << (3 * e)
                words.append(w)
            self.mem.write(RTR_P2P + 128 * col,
                           struct.pack("<32I", *words))

    def sync_core(self, p):
        c = self.cores[p]
        self.mem.write(self.vcpu_addr(p, "cpu_state"), bytes([c.state]))
        self.mem.write(self.vcpu_addr(p, "app_id"), bytes([c.app_id & 0xff]))

    def sync_router(self):
        data = bytearray()
        for i, e in enumerate(self.router):
            if e is None:
                data += struct.pack("<2H3I", i, 0, 0xff000000, 0, 0xffffffff)
            else:
                route, key, mask, app, core = e
                data += struct.pack("<2H3I", i, (core << 8) | app, route, key,
                                    mask)
        self.mem.write(self.rtr_copy_addr(), bytes(data))

    def rtr_copy_addr(self):
        """The copy of the router table is a boot-time heap allocation: its
        address differs from chip to chip."""
        return RTR_COPY + 0x8000 * ((3 * self.x + 5 * self.y) % 7)

    def largest_free_rtr(self):
        return max([l for s, l in self.rtr_free] + [0])


class Machine(object):
    """The whole simulated machine."""

    def __init__(self, width=2, height=2, buffer_size=256, structs=None,
                 version=(1, 33), root=(0, 0)):
        self.structs = structs or svstruct.load()
        self.width, self.height = width, height
        self.buffer_size = buffer_size
        self.iobuf_size = 64
        self.vcpu_base = VCPU_BASE
        self.root = root
        self.version = version            # (major, minor) or semantic string
        self.version_string = "SC&MP/SpiNNaker"
        self.build_date = 1400000000
        self.chips = {}
        self.violations = []
        self.log = []                     # every command received
        self.fill = None                  # flood fill in progress
        self.fills = []                   # completed fills
        self.last_pid = None
        self.miss_plan = []               # per fill attempt: set of chips
        self.signals = []
        self.route_error_for_absent = False
        self.p2p_overrides = {}

    def add_chip(self, x, y, **kw):
        c = Chip(self, x, y, **kw)
        self.chips[(x, y)] = c
        return c

    def populate(self, dead=()):
        for x in range(self.width):
            for y in range(self.height):
                if (x, y) not in dead:
                    self.add_chip(x, y)
        return self

    def sync(self, router=True, p2p=True):
        for c in self.chips.values():
            c.sync_system_memory(router, p2p)

    def p2p_entry(self, chip, x, y):
        """P2P table entry on `chip` for destination (x, y)."""
        if (x, y) in self.p2p_overrides:
            return self.p2p_overrides[(x, y)]
        if (x, y) == (chip.x, chip.y):
            return 7
        if (x, y) in self.chips:
            return (x + 2 * y) % 6        # some direction
        return 6

    def bad(self, msg, **details):
        self.violations.append((msg, details))

    def endpoint(self, eth_chip, name=None):
        return Endpoint(self, eth_chip, name)


def _reply(req, rc, args=(), data=b""):
    hdr = bytes([0, 0, 0x07, req[3], req[5], req[4], req[8], req[9], req[6],
                 req[7]])
    seq = req[12:14]
    body = struct.pack("<H", rc) + seq
    for a in args:
        body += struct.pack("<I", a & 0xffffffff)
    return hdr + body + bytes(data)


class Endpoint(object):
    """What answers on one Ethernet connection."""

    def __init__(self, machine, eth_chip, name):
        self.m = machine
        self.eth = tuple(eth_chip)
        self.name = name

    def handle(self, data, dest):
        m = self.m
        if len(data) < 14:
            m.bad("datagram shorter than an SCP header", length=len(data))
            return []
        flags, tag, dpc, spc, dy, dx, sy, sx = struct.unpack_from("<8B", data,
                                                                   2)
        cmd, seq = struct.unpack_from("<2H", data, 10)
        body = data[14:]
        if len(body) >= 12:
            a1, a2, a3 = struct.unpack_from("<3I", body)
            payload = body[12:]
        else:
            a1 = a2 = a3 = None
            payload = b""
        p = dpc & 0x1f
        entry = {"conn": self.name, "eth": self.eth, "x": dx, "y": dy, "p": p,
                 "port": dpc >> 5, "cmd": cmd, "seq": seq, "arg1": a1,
                 "arg2": a2, "arg3": a3, "data": bytes(payload),
                 "flags": flags, "tag": tag, "raw": bytes(data)}
        m.log.append(entry)
        if flags != 0x87:
            m.bad("SCP command does not ask for a reply", flags=flags)
        if a1 is None:
            m.bad("SCP command without three argument words", cmd=cmd)
            return [_reply(data, RC_ARG)]
        chip_xy = self.eth if (dx, dy) == (255, 255) else (dx, dy)
        chip = m.chips.get(chip_xy)
        if chip is not None and getattr(chip, "no_reply_code", None):
            # the Ethernet chip answers on behalf of a chip that does not
            # acknowledge point-to-point packets (RC_P2P_NOREPLY etc.)
            return [_reply(data, chip.no_reply_code)]
        if chip is None or chip.silent:
            if m.route_error_for_absent and chip is None:
                return [_reply(data, RC_ROUTE)]
            return []
        if p >= 18:
            return [_reply(data, RC_CPU)]
        handler = getattr(self, "cmd_%d" % cmd, None)
        if handler is None:
            m.bad("unknown SCP command", cmd=cmd)
            return [_reply(data, RC_CMD)]
        out = handler(chip, p, a1, a2, a3, payload, data)
        return [out] if out is not None else []

    # ---------------------------------------------------------------- sver
    def cmd_0(self, chip, p, a1, a2, a3, payload, req):
        m = self.m
        arg1 = (((chip.x << 8) | chip.y) << 16) | ((p + 1) << 8) | p
        if isinstance(m.version, tuple):
            ver = m.version[0] * 100 + m.version[1]
            name = m.version_string.encode() + b"\0"
        else:
            ver = 0xffff
            name = (m.version_string.encode() + b"\0" +
                    m.version.encode() + b"\0")
        # application cores (SARK) may advertise another buffer size than
        # the monitor (SC&MP), whose value governs every command
        buf = m.buffer_size
        if p != 0 and getattr(m, "app_buffer_size", None):
            buf = m.app_buffer_size
        return _reply(req, RC_OK, (arg1, (ver << 16) | buf,
                                   m.build_date), name)

    # ---------------------------------------------------------- read/write
    def _check_access(self, what, addr, n, typ):
        m = self.m
        if n > m.buffer_size:
            m.bad("%s moves more bytes than the advertised buffer size"
                  % what, length=n, buffer=m.buffer_size)
        if typ == 2 and (addr % 4 or n % 4):
            m.bad("%s uses word access with unaligned address or length"
                  % what, address=addr, length=n)
        elif typ == 1 and (addr % 2 or n % 2):
            m.bad("%s uses half-word access with unaligned address or length"
                  % what, address=addr, length=n)
        elif typ not in (0, 1, 2):
            m.bad("%s uses an unknown access type" % what, type=typ)

    def cmd_2(self, chip, p, addr, n, typ, payload, req):
        self._check_access("read", addr, n, typ)
        if payload:
            self.m.bad("read command carries data", length=len(payload))
        return _reply(req, RC_OK, (), chip.mem.read(addr, n))

    def cmd_3(self, chip, p, addr, n, typ, payload, req):
        self._check_access("write", addr, n, typ)
        if n != len(payload):
            self.m.bad("write: arg2 differs from the number of data bytes",
                       arg2=n, data=len(payload))
        chip.mem.write(addr, payload)
        return _reply(req, RC_OK)

    def cmd_5(self, chip, p, addr, word, size, payload, req):
        if addr % 4 or size % 4:
            self.m.bad("fill command with unaligned address or size",
                       address=addr, size=size)
            return _reply(req, RC_ARG)
        chip.mem.write(addr, struct.pack("<I", word) * (size // 4))
        return _reply(req, RC_OK)

    def _neighbour(self, chip, link):
        m = self.m
        if link not in LINK_VEC or link not in chip.links:
            return None
        dx, dy = LINK_VEC[link]
        return m.chips.get(((chip.x + dx) % m.width,
                            (chip.y + dy) % m.height))

    def cmd_17(self, chip, p, addr, n, link, payload, req):
        if addr % 4 or n % 4:
            self.m.bad("link read with unaligned address or length",
                       address=addr, length=n)
        if n > self.m.buffer_size:
            self.m.bad("link read longer than the advertised buffer size",
                       length=n, buffer=self.m.buffer_size)
        other = self._neighbour(chip, link)
        if other is None:
            return None
        return _reply(req, RC_OK, (), other.mem.read(addr, n))

    def cmd_18(self, chip, p, addr, n, link, payload, req):
        if addr % 4 or n % 4:
            self.m.bad("link write with unaligned address or length",
                       address=addr, length=n)
        if n > self.m.buffer_size:
            self.m.bad("link write longer than the advertised buffer size",
                       length=n, buffer=self.m.buffer_size)
        if n != len(payload):
            self.m.bad("link write: arg2 differs from the data length",
                       arg2=n, data=len(payload))
        other = self._neighbour(chip, link)
        if other is None:
            return None
        other.mem.write(addr, payload)
        return _reply(req, RC_OK)

    # ------------------------------------------------------------ flood fill
    def cmd_20(self, chip, p, a1, a2, a3, payload, req):
        m = self.m
        op = a1 >> 24
        if op == 6:                                   # flood fill start
            pid = (a1 >> 16) & 0xff
            if m.fill is not None:
                m.bad("flood fill started while another is in progress")
            if pid % 2 or not 2 <= pid <= 252:
                m.bad("flood fill id is not an even number in 2..252",
                      pid=pid)
            if pid == m.last_pid:
                m.bad("flood fill id equals the previous fill's id", pid=pid)
            m.fill = {"pid": pid, "n_blocks": (a1 >> 8) & 0xff, "blocks": [],
                      "selects": [], "data_seen": False, "sfr": a3,
                      "attempt": len(m.fills)}
        elif op == 7:                                 # core select
            if m.fill is None:
                m.bad("core select outside a flood fill")
            else:
                sel = (a2, a1 & 0xffffff)
                if a1 & 0xffffff & ~0x3ffff:
                    m.bad("core mask wider than 18 bits", mask=a1 & 0xffffff)
                if m.fill["selects"] and sel <= m.fill["selects"][-1]:
                    m.bad("core selects are not in strictly increasing order",
                          previous=m.fill["selects"][-1], this=sel)
                m.fill["selects"].append(sel)
        elif op == 15:                                # flood fill end
            self._fill_end(a1 & 0xff, (a2 >> 24) & 0xff, (a2 >> 18) & 0x3f)
        else:
            m.bad("unknown nearest-neighbour command", op=op)
        return _reply(req, RC_OK)

    def cmd_23(self, chip, p, a1, a2, a3, payload, req):
        m = self.m
        if m.fill is None:
            m.bad("flood fill data outside a flood fill")
            return _reply(req, RC_OK)
        f = m.fill
        pid = a1 & 0xff
        block = (a2 >> 16) & 0xff
        words = ((a2 >> 8) & 0xff) + 1
        if pid != f["pid"]:
            m.bad("flood fill data with another fill's id", pid=pid)
        if len(payload) > m.buffer_size:
            m.bad("flood fill block longer than the advertised buffer size",
                  length=len(payload), buffer=m.buffer_size)
        if len(payload) % 4 or words * 4 != len(payload):
            m.bad("flood fill block: word count field does not match the "
                  "data", words=words, length=len(payload))
        if block != len(f["blocks"]):
            m.bad("flood fill blocks are not numbered consecutively",
                  block=block, expected=len(f["blocks"]))
        exp_addr = SDRAM_SYS + sum(len(b) for b in f["blocks"])
        if a3 != exp_addr:
            m.bad("flood fill block is not placed directly after the "
                  "previous one", address=a3, expected=exp_addr)
        f["blocks"].append(bytes(payload))
        return _reply(req, RC_OK)

    def _fill_end(self, pid, app_id, flags):
        m = self.m
        f = m.fill
        if f is None:
            m.bad("flood fill end without start")
            return
        if pid != f["pid"]:
            m.bad("flood fill end with another fill's id", pid=pid)
        if len(f["blocks"]) != f["n_blocks"]:
            m.bad("announced block count differs from the blocks sent",
                  announced=f["n_blocks"], sent=len(f["blocks"]))
        image = b"".join(f["blocks"])
        selected = {}
        for region, mask in f["selects"]:
            expand_region(region, mask, selected)
        attempt = len(m.fills)
        missed = set(m.miss_plan[attempt]) if attempt < len(m.miss_plan) \
            else set()
        loaded = []
        for (x, y), cores in selected.items():
            chip = m.chips.get((x, y))
            if chip is None or (x, y) in missed:
                continue
            for p, n in cores.items():
                if p >= chip.num_cores:
                    continue
                c = chip.cores[p]
                c.image = image
                c.app_id = app_id
                c.state = 5 if flags & 1 else 7
                c.loaded_by = attempt
                chip.sync_core(p)
                loaded.append((x, y, p))
        f.update(app_id=app_id, flags=flags, image=image,
                 selected=dict((k, sorted(v)) for k, v in selected.items()),
                 loaded=loaded, missed=sorted(missed))
        m.fills.append(f)
        m.last_pid = f["pid"]
        m.fill = None

    # ---------------------------------------------------------------- signal
    def cmd_22(self, chip, p, a1, a2, a3, payload, req):
        m = self.m
        if a1 == 1:                       # point-to-point: diagnostics
            op = (a2 >> 20) & 3
            state = (a2 >> 16) & 0xf
            app_mask = (a2 >> 8) & 0xff
            app_id = a2 & 0xff
            count = 0
            for c in m.chips.values():
                for core in c.cores[:c.num_cores]:
                    if core.state == state and \
                            (core.app_id & app_mask) == (app_id & app_mask):
                        count += 1
            m.signals.append(("count", state, app_id, count))
            if op == 2:
                return _reply(req, RC_OK, (count, 0, 0))
            return _reply(req, RC_OK, (1 if count else 0, 0, 0))
        signal = (a2 >> 16) & 0xff
        app_id = a2 & 0xff
        m.signals.append(("signal", signal, app_id, a1))
        for c in m.chips.values():
            for i, core in enumerate(c.cores[:c.num_cores]):
                if core.app_id != app_id or i == 0:
                    continue
                if signal == 3 and core.state == 5:      # start
                    core.state = 7
                elif signal == 2:                         # stop
                    core.state = 15
                    core.app_id = 0
                    core.image = None
                c.sync_core(i)
            if signal == 2:
                for ptr, (size, app, tag) in list(c.allocs.items()):
                    if app == app_id:
                        del c.allocs[ptr]
                        c.tags.pop((app, tag), None)
                self._free_rtr_app(c, app_id)
        return _reply(req, RC_OK, (0, 0, 0))

    # ------------------------------------------------------------ led, iptag
    def cmd_25(self, chip, p, a1, a2, a3, payload, req):
        chip.leds[len(chip.leds)] = a1
        return _reply(req, RC_OK)

    def cmd_26(self, chip, p, a1, a2, a3, payload, req):
        op = a1 >> 16
        tag = a1 & 0xffff
        if op == 1:
            chip.iptags[tag] = (a3, a2)
            return _reply(req, RC_OK, (0, 0, 0))
        if op == 2:
            ip, port = chip.iptags.get(tag, (0, 0))
            data = struct.pack("<4s6s3HI2HB", struct.pack("<I", ip),
                               b"\0" * 6, port, 0, 0x8000 if tag in
                               chip.iptags else 0, 0, 0, 0, 0)
            return _reply(req, RC_OK, (), data)
        if op == 3:
            chip.iptags.pop(tag, None)
            return _reply(req, RC_OK, (0, 0, 0))
        self.m.bad("unknown iptag operation", op=op)
        return _reply(req, RC_ARG)

    # ------------------------------------------------------------ alloc/free
    def cmd_28(self, chip, p, a1, a2, a3, payload, req):
        op = a1 & 0xff
        app = (a1 >> 8) & 0xff
        if op == 0:                                   # alloc sdram
            size, tag = a2, a3
            if tag and (app, tag) in chip.tags:
                return _reply(req, RC_OK, (0, 0, 0))
            ptr = (chip.heap_next + 3) & ~3
            if size == 0 or ptr + size > chip.heap_limit:
                return _reply(req, RC_OK, (0, 0, 0))
            chip.heap_next = ptr + size + 16          # guard gap
            chip.allocs[ptr] = (size, app, tag)
            if tag:
                chip.tags[(app, tag)] = ptr
            return _reply(req, RC_OK, (ptr, 0, 0))
        if op == 1:                                   # free sdram by ptr
            if a2 not in chip.allocs:
                self.m.bad("sdram free of a pointer that is not allocated",
                           ptr=a2)
                return _reply(req, RC_OK, (0, 0, 0))
            size, app, tag = chip.allocs.pop(a2)
            chip.tags.pop((app, tag), None)
            return _reply(req, RC_OK, (1, 0, 0))
        if op == 3:                                   # alloc router entries
            count = a2
            base = 0
            if count > 0:
                for i, (s, l) in enumerate(chip.rtr_free):
                    if l >= count:
                        base = s
                        if l == count:
                            chip.rtr_free.pop(i)
                        else:
                            chip.rtr_free[i] = (s + count, l - count)
                        chip.rtr_blocks[s] = (count, app)
                        break
            return _reply(req, RC_OK, (base, 0, 0))
        if op == 5:                                   # free router by app
            self._free_rtr_app(chip, app, clear=bool(a2))
            return _reply(req, RC_OK, (1, 0, 0))
        self.m.bad("unsupported alloc/free operation", op=op)
        return _reply(req, RC_ARG)

    def _free_rtr_app(self, chip, app, clear=True):
        for s, (l, a) in list(chip.rtr_blocks.items()):
            if a == app:
                del chip.rtr_blocks[s]
                chip.rtr_free.append((s, l))
                if clear:
                    for i in range(s, s + l):
                        chip.router[i] = None
        chip.rtr_free.sort()
        chip.sync_router()

    # ---------------------------------------------------------------- router
    def cmd_29(self, chip, p, a1, a2, a3, payload, req):
        m = self.m
        op = a1 & 0xff
        if op != 2:
            m.bad("unsupported router operation", op=op)
            return _reply(req, RC_ARG)
        count = a1 >> 16
        app = (a1 >> 8) & 0xff
        buf, base = a2, a3
        block = chip.rtr_blocks.get(base)
        if block is None or block[0] < count or block[1] != app:
            m.bad("router load into entries that were not allocated to the "
                  "application", base=base, count=count, app=app,
                  block=block)
        raw = chip.mem.read(buf, 16 * count)
        seen = set()
        for i in range(count):
            idx, pad, route, key, mask = struct.unpack_from("<2H3I", raw,
                                                            16 * i)
            if idx in seen or idx >= count:
                m.bad("router load record with a bad index", index=idx,
                      count=count)
                continue
            seen.add(idx)
            if 0 < base + idx < 1024:
                chip.router[base + idx] = (route, key, mask, app, p)
        chip.sync_router()
        return _reply(req, RC_OK)

    # ------------------------------------------------------------------ info
    def cmd_31(self, chip, p, a1, a2, a3, payload, req):
        arg1 = chip.num_cores & 0x1f
        for l in chip.links:
            arg1 |= 1 << (8 + l)
        arg1 |= (chip.largest_free_rtr() & 0x7ff) << 14
        if chip.eth_up:
            arg1 |= 1 << 25
        states = bytes(c.state for c in chip.cores)
        data = states + struct.pack(
            "<HI", (chip.local_eth[0] << 8) | chip.local_eth[1],
            struct.unpack("<I", bytes(chip.ip))[0])
        return _reply(req, RC_OK, (arg1, chip.free_sdram, chip.free_sram),
                      data)
