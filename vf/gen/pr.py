"""Strategies and builders for place-and-route inputs.

Cases are JSON-able dicts; build_* functions turn them into rig objects.

machine case:
  {"w", "h", "mesh": bool, "resources": {name: n}, "exceptions": [[x, y,
   {name: n}]], "dead_chips": [[x, y]], "dead_links": [[x, y, link]]}
"""
from hypothesis import strategies as st

LINK_VEC = {0: (1, 0), 1: (1, 1), 2: (0, 1), 3: (-1, 0), 4: (-1, -1),
            5: (0, -1)}

_user_resources = {}


# While a case runs with identifiers of its own for the standard resources
# (the wrappers' core_resource= / sdram_resource= / sram_resource= options)
# this maps "Cores" / "SDRAM" / "SRAM" to those identifiers.
_alias = {}
# set per case by the problem builders: user-defined resources are identified
# by equal-but-distinct objects
_fresh = False


def resource(name):
    """Map a resource name of a case to the object rig sees."""
    if name in _alias:
        return _alias[name]
    from rig.place_and_route import Cores, SDRAM, SRAM
    std = {"Cores": Cores, "SDRAM": SDRAM, "SRAM": SRAM}
    if name in std:
        return std[name]
    if _fresh:
        # an identifier that is equal to, but never the same object as, the
        # one used elsewhere for this resource (any hashable object may
        # identify a resource; programs build such keys at run time)
        return tuple(["user resource", name])
    if name not in _user_resources:
        import sentinel
        _user_resources[name] = sentinel.create("User_" + name)
    return _user_resources[name]


def resource_name(obj):
    for n, o in _alias.items():
        if obj is o or obj == o:
            return n
    from rig.place_and_route import Cores, SDRAM, SRAM
    for n, o in (("Cores", Cores), ("SDRAM", SDRAM), ("SRAM", SRAM)):
        if obj is o:
            return n
    for n, o in _user_resources.items():
        if obj is o:
            return n
    if isinstance(obj, tuple) and len(obj) == 2 and obj[0] == "user resource":
        return obj[1]
    raise KeyError(obj)


def res_dict(d, reverse=False):
    """Resource dict as rig sees it; keys in sorted name order (or reversed)
    so that replays do not depend on JSON key order."""
    keys = sorted(d, reverse=reverse)
    return dict((resource(k), d[k]) for k in keys)


# --------------------------------------------------------------- machine

SHAPES_SMALL = [(1, 1), (1, 2), (2, 1), (1, 3), (3, 1), (1, 5), (2, 2),
                (2, 3), (3, 2), (2, 5), (5, 2), (3, 3), (4, 4), (2, 8),
                (8, 2), (1, 8)]


def shape_strategy(max_w, max_h, degenerate_weight=True):
    free = st.tuples(st.integers(1, max_w), st.integers(1, max_h))
    small = [s for s in SHAPES_SMALL if s[0] <= max_w and s[1] <= max_h]
    if degenerate_weight and small:
        return st.one_of(st.sampled_from(small), free, free)
    return free


def mesh_dead_links(w, h):
    """Links leaving the w x h rectangle (what a non-torus machine lacks)."""
    out = set()
    for x in range(w):
        for y in range(h):
            for l, (dx, dy) in LINK_VEC.items():
                if not (0 <= x + dx < w and 0 <= y + dy < h):
                    out.add((x, y, l))
    return out


@st.composite
def machine(draw, max_w=8, max_h=8, resources=None, faults=True,
            exceptions=True, max_dead_frac=0.3, shape=None):
    w, h = draw(shape if shape is not None else shape_strategy(max_w, max_h))
    chips = [(x, y) for x in range(w) for y in range(h)]
    mesh = draw(st.booleans())
    dead_chips = []
    dead_links = []
    if faults and draw(st.integers(0, 3)) > 0:
        nmax = int(len(chips) * max_dead_frac)
        if nmax > 0:
            dead_chips = draw(st.lists(st.sampled_from(chips), max_size=nmax,
                                       unique=True))
            if len(dead_chips) == len(chips):
                dead_chips = dead_chips[1:]
        link = st.tuples(st.sampled_from(chips), st.integers(0, 5),
                         st.booleans())
        density = draw(st.sampled_from([0, 2, 6, max(6, len(chips))]))
        for (x, y), l, both in draw(st.lists(link, max_size=density)):
            dead_links.append([x, y, l])
            if both:
                dx, dy = LINK_VEC[l]
                dead_links.append([(x + dx) % w, (y + dy) % h, (l + 3) % 6])
    if resources is None:
        resources = draw(resources_strategy())
    exc = []
    live = [c for c in chips if c not in set(map(tuple, dead_chips))]
    exc_reversed = False
    if exceptions and draw(st.booleans()):
        # exceptions are only listed for working chips (an exception entry
        # for a dead chip makes global reservations raise IndexError; not
        # asserted against, see DESIGN.md observations)
        for c in draw(st.lists(st.sampled_from(live), max_size=4,
                               unique=True)):
            exc.append([c[0], c[1], dict(
                (k, draw(st.one_of(st.just(0), st.integers(0, v + 2))))
                for k, v in resources.items())])
        # dictionaries with the same keys in another insertion order are the
        # same resources: half of the machines list their exceptions reversed
        if draw(st.booleans()):
            exc_reversed = True
    return {"w": w, "h": h, "mesh": mesh, "resources": resources,
            "exceptions": exc, "exceptions_reversed": exc_reversed,
            "dead_chips": sorted(map(list, dead_chips)),
            "dead_links": sorted(set(map(tuple, dead_links)))}


def resources_strategy():
    return st.one_of(
        st.fixed_dictionaries({"Cores": st.integers(1, 18)}),
        st.fixed_dictionaries({"Cores": st.integers(0, 18),
                               "SDRAM": st.integers(0, 200)}),
        st.fixed_dictionaries({"Cores": st.integers(1, 18),
                               "SDRAM": st.integers(0, 200),
                               "U": st.integers(0, 9)}),
        st.fixed_dictionaries({"U": st.integers(1, 9)}),
    )


def build_machine(m):
    from rig.place_and_route import Machine
    from rig.links import Links
    dead_links = set((x, y, Links(l)) for x, y, l in m["dead_links"])
    if m["mesh"]:
        dead_links |= set((x, y, Links(l))
                          for x, y, l in mesh_dead_links(m["w"], m["h"]))
    return Machine(
        m["w"], m["h"], chip_resources=res_dict(m["resources"]),
        chip_resource_exceptions=dict(
            ((x, y), res_dict(r, m.get("exceptions_reversed", False)))
            for x, y, r in m["exceptions"]),
        dead_chips=set((x, y) for x, y in m["dead_chips"]),
        dead_links=dead_links)


def live_chips(m):
    dead = set(map(tuple, m["dead_chips"]))
    return [(x, y) for x in range(m["w"]) for y in range(m["h"])
            if (x, y) not in dead]


def chip_capacity(m, chip):
    for x, y, r in m["exceptions"]:
        if (x, y) == tuple(chip):
            return r
    return m["resources"]


def working_links(m):
    """Set of (x, y, link) that are working: chip alive, link not dead (and
    not leaving a mesh).  The far end being alive is NOT implied."""
    dead = set(map(tuple, m["dead_links"]))
    if m["mesh"]:
        dead |= mesh_dead_links(m["w"], m["h"])
    out = set()
    for (x, y) in live_chips(m):
        for l in range(6):
            if (x, y, l) not in dead:
                out.add((x, y, l))
    return out


def neighbour(m, chip, link):
    dx, dy = LINK_VEC[link]
    return ((chip[0] + dx) % m["w"], (chip[1] + dy) % m["h"])


def usable_hops(m):
    """Directed graph chip -> {link: neighbour} over working links between
    working chips."""
    live = set(live_chips(m))
    g = dict((c, {}) for c in live)
    for (x, y, l) in working_links(m):
        n = neighbour(m, (x, y), l)
        if n in live:
            g[(x, y)][l] = n
    return g


def strongly_connected(m):
    g = usable_hops(m)
    if not g:
        return True
    nodes = list(g)
    rev = dict((c, set()) for c in g)
    for c, hops in g.items():
        for n in hops.values():
            rev[n].add(c)

    def reach(start, adj):
        seen = {start}
        stack = [start]
        while stack:
            c = stack.pop()
            for n in adj(c):
                if n not in seen:
                    seen.add(n)
                    stack.append(n)
        return seen
    a = reach(nodes[0], lambda c: g[c].values())
    b = reach(nodes[0], lambda c: rev[c])
    return len(a) == len(g) and len(b) == len(g)


# --------------------------------------------------------------- vertices

class VObj(object):
    """A vertex object compared by identity.  Its hash is derived from the
    name (not the address) so that set/dict orders inside rig, and therefore
    replays, do not vary from run to run."""

    def __init__(self, name):
        self.name = name

    def __hash__(self):
        return hash(("VObj", self.name))

    def __eq__(self, other):
        return self is other

    def __ne__(self, other):
        return self is not other

    def __repr__(self):
        return "VObj(%s)" % self.name


class IdObj(object):
    """A vertex object with the default identity hash (address based), as a
    user's own vertex class would have."""

    def __init__(self, name):
        self.name = name

    def __repr__(self):
        return "IdObj(%s)" % self.name


_SUBCLASSES = {}


def constraint_class(cls, sub):
    """cls, or (sub true) a caller-defined subclass of it that adds nothing:
    a constraint of a derived class is a constraint of its base class."""
    if not sub:
        return cls
    if cls not in _SUBCLASSES:
        _SUBCLASSES[cls] = type("Users" + cls.__name__, (cls,), {})
    return _SUBCLASSES[cls]


class _FreshTuples(dict):
    """name -> a vertex identifier that is built anew at every look-up: equal
    to, but never the same object as, the identifier used elsewhere for the
    vertex (programs that build their vertex keys at run time, e.g.
    (population, index) tuples)."""

    def __init__(self, names):
        dict.__init__(self, ((n, i) for i, n in enumerate(names)))

    def _make(self, n):
        return tuple(["vertex", dict.__getitem__(self, n), n])

    def __getitem__(self, n):
        return self._make(n)

    def get(self, n, default=None):
        return self._make(n) if n in self else default

    def values(self):
        return [self._make(n) for n in self]

    def items(self):
        return [(n, self._make(n)) for n in self]


def vertex_objects(names, kind):
    """name -> vertex object handed to rig."""
    if kind == "eqtuple":
        return _FreshTuples(names)
    if kind == "idobj":
        return dict((n, IdObj(n)) for n in names)
    if kind == "str":
        return dict((n, n) for n in names)
    if kind == "tuple":
        return dict((n, ("vertex", i, n)) for i, n in enumerate(names))
    if kind == "obj":
        return dict((n, VObj(n)) for n in names)
    if kind == "int":
        return dict((n, 1000 + i) for i, n in enumerate(names))
    raise ValueError(kind)


VERTEX_KINDS = ["str", "str", "tuple", "obj", "int", "eqtuple"]
