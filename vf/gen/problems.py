"""Placement problems: machine + vertices + nets + consistent constraints."""
from hypothesis import strategies as st

from vf.gen import pr


class UnionFind(object):
    def __init__(self, items):
        self.p = dict((i, i) for i in items)

    def find(self, a):
        while self.p[a] != a:
            self.p[a] = self.p[self.p[a]]
            a = self.p[a]
        return a

    def union(self, a, b):
        self.p[self.find(a)] = self.find(b)

    def groups(self):
        g = {}
        for i in self.p:
            g.setdefault(self.find(i), []).append(i)
        return list(g.values())


def same_chip_groups(names, same):
    uf = UnionFind(names)
    for grp in same:
        for a in grp[1:]:
            uf.union(grp[0], a)
    return uf.groups()


@st.composite
def reservations(draw, m, chips, max_each=2):
    """Pairwise disjoint reservations inside every affected chip's range."""
    out = []
    names = sorted(m["resources"])
    used = dict((c, dict((r, []) for r in names)) for c in chips)
    for r in names:
        # global reservations must also fit the machine-wide default, which
        # rig reduces even when every chip has an exception entry
        mincap = min([pr.chip_capacity(m, c)[r] for c in chips] +
                     [m["resources"][r]])
        pos = 0
        for _ in range(draw(st.integers(0, max_each))):
            gap = draw(st.integers(0, 2))
            ln = draw(st.integers(1, 3))
            if pos + gap + ln > mincap:
                break
            seg = [pos + gap, pos + gap + ln]
            pos = seg[1]
            out.append({"res": r, "start": seg[0], "stop": seg[1],
                        "loc": None})
            for c in chips:
                used[c][r].append(seg)
    for c in draw(st.lists(st.sampled_from(chips), max_size=3, unique=True)):
        for r in names:
            cap = pr.chip_capacity(m, c)[r]
            if cap <= 0 or draw(st.booleans()):
                continue
            start = draw(st.integers(0, cap - 1))
            stop = draw(st.integers(start + 1, min(cap, start + 3)))
            seg = [start, stop]
            if any(max(seg[0], t[0]) < min(seg[1], t[1])
                   for t in used[c][r]):
                continue
            used[c][r].append(seg)
            out.append({"res": r, "start": start, "stop": stop,
                        "loc": list(c)})
    return draw(st.permutations(out)), used


def free_capacity(m, chip, used):
    cap = pr.chip_capacity(m, chip)
    return dict((r, cap[r] - sum(s[1] - s[0] for s in used[chip][r]))
                for r in cap)


@st.composite
def nets_strategy(draw, names, max_nets=8, max_fan=6, min_nets=0):
    if not names:
        return []
    nets = []
    for _ in range(draw(st.integers(min_nets, max_nets))):
        src = draw(st.sampled_from(names))
        sinks = draw(st.lists(st.sampled_from(names),
                              min_size=min(min_nets, 1), max_size=max_fan))
        # weights are traffic estimates: they span many orders of magnitude
        w = draw(st.sampled_from([1, 1, 1.0, 0, 0.0, 2.5, 3, 0.25, 1e-6,
                                  1000, 1e6, 1e9]))
        nets.append({"source": src, "sinks": sinks, "weight": w,
                     # a single sink given as the vertex itself, the form
                     # Net(source, sink) that the constructor documents
                     "bare": len(sinks) == 1 and draw(st.booleans())})
    return nets


_NET_SUB = []


def net_subclass():
    """A Net class of the program's own (nets carrying a label)."""
    if not _NET_SUB:
        from rig.netlist import Net

        class LabelledNet(Net):
            def __init__(self, source, sinks, weight=1.0, label=None):
                super(LabelledNet, self).__init__(source, sinks, weight)
                self.label = label
        _NET_SUB.append(LabelledNet)
    return _NET_SUB[0]


class debug_logging(object):
    """with debug_logging(on): the root logger at DEBUG level (records go to
    a handler that drops them), as a program under investigation runs."""

    def __init__(self, on):
        self.on = bool(on)

    def __enter__(self):
        if self.on:
            import logging
            self.root = logging.getLogger()
            self.level = self.root.level
            self.handler = logging.NullHandler()
            self.root.addHandler(self.handler)
            self.root.setLevel(logging.DEBUG)

    def __exit__(self, *exc):
        if self.on:
            self.root.setLevel(self.level)
            self.root.removeHandler(self.handler)
        return False


def sinks_arg(vobj, n):
    """The sinks argument of Net for a generated net."""
    if n.get("bare") and len(n["sinks"]) == 1:
        return vobj[n["sinks"][0]]
    return [vobj[s] for s in n["sinks"]]


@st.composite
def problem(draw, tier, premise=False, max_w=None, max_v=None):
    """A placement problem.  premise=True restricts to the completeness
    premise of C02 (one resource, needs <= 1, no same-chip groups, pinned
    vertices fit, total need <= total free capacity)."""
    big = tier == "thorough"
    max_w = max_w or (10 if big else 6)
    max_v = max_v or (40 if big else 14)
    if premise:
        resources = draw(st.one_of(
            st.fixed_dictionaries({"Cores": st.integers(0, 6)}),
            st.fixed_dictionaries({"U": st.integers(1, 4)})))
    else:
        resources = draw(pr.resources_strategy())
    m = draw(pr.machine(max_w, max_w, resources=resources))
    chips = pr.live_chips(m)
    res_names = sorted(m["resources"])
    reserve, used = draw(reservations(m, chips))
    free = dict((c, free_capacity(m, c, used)) for c in chips)
    n = draw(st.integers(0, max_v))
    names = ["v%d" % i for i in range(n)]
    vertices = []
    constraints = []
    if premise:
        r = res_names[0]
        total = sum(free[c][r] for c in chips)
        ones = draw(st.one_of(st.integers(0, min(n, total)),
                              st.just(min(n, total))))
        order = draw(st.permutations(names)) if names else []
        need = dict((v, 1 if i < ones else 0) for i, v in enumerate(order))
        for v in names:
            style = draw(st.integers(0, 3))
            vertices.append({"name": v, "needs":
                             {} if need[v] == 0 and style == 0
                             else {r: need[v]}})
        # location constraints that fit
        room = dict((c, free[c][r]) for c in chips)
        for v in draw(st.lists(st.sampled_from(names), max_size=4,
                               unique=True)) if names else []:
            cands = [c for c in chips if room[c] >= need[v]]
            if not cands:
                continue
            c = draw(st.sampled_from(cands))
            room[c] -= need[v]
            constraints.append({"type": "loc", "v": v, "chip": list(c)})
        same = []
    else:
        for v in names:
            needs = {}
            for r in res_names:
                k = draw(st.integers(0, 5))
                if k == 0:
                    continue
                cap = m["resources"][r]
                needs[r] = draw(st.one_of(
                    st.just(0), st.just(1),
                    st.integers(0, max(1, cap // 2)),
                    st.integers(0, cap + 1)))
            vertices.append({"name": v, "needs": needs})
        same = []
        if names:
            for _ in range(draw(st.integers(0, 3))):
                same.append(draw(st.lists(st.sampled_from(names), min_size=1,
                                          max_size=4)))
            if same and draw(st.integers(0, 3)) == 0:
                same.append(list(same[0]))           # duplicated constraint
        for grp in same:
            constraints.append({"type": "same", "vs": grp})
        groups = same_chip_groups(names, same)
        bad = draw(st.integers(0, 11)) == 0
        for g in draw(st.lists(st.sampled_from(groups), max_size=4,
                               unique_by=lambda g: g[0])) if groups else []:
            v = draw(st.sampled_from(sorted(g)))
            if bad:
                chip = draw(st.sampled_from(
                    [list(c) for c in m["dead_chips"]] +
                    [[m["w"], 0], [0, m["h"]], [-1, 0]]))
                bad = False
                constraints.append({"type": "loc", "v": v, "chip": chip,
                                    "bad": True})
            else:
                constraints.append({"type": "loc", "v": v, "chip":
                                    list(draw(st.sampled_from(chips)))})
    for r in reserve:
        constraints.append(dict(r, type="reserve"))
    constraints = draw(st.permutations(constraints))
    nets = draw(nets_strategy(names))
    return {"machine": m, "vertices": vertices, "nets": nets,
            "constraints": constraints,
            "vkind": draw(st.sampled_from(pr.VERTEX_KINDS)),
            # constraints given as instances of the caller's own subclasses
            "subcls": draw(st.integers(0, 4)) == 0,
            # user-defined resources identified by equal but distinct objects
            "fresh_ids": draw(st.integers(0, 4)) == 0,
            # the program runs with debug logging switched on
            "debug_log": draw(st.integers(0, 5)) == 0,
            "seed": draw(st.integers(0, 10 ** 6))}


def build_problem(case):
    """-> (vertices_resources, nets, machine, constraints, vobj)"""
    from collections import OrderedDict
    from rig.netlist import Net
    from rig.place_and_route.constraints import (
        LocationConstraint, SameChipConstraint, ReserveResourceConstraint)
    pr._fresh = bool(case.get("fresh_ids"))
    machine = pr.build_machine(case["machine"])
    names = [v["name"] for v in case["vertices"]]
    vobj = pr.vertex_objects(names, case["vkind"])
    vr = OrderedDict((vobj[v["name"]], pr.res_dict(v["needs"]))
                     for v in case["vertices"])
    if case.get("subcls"):
        Net = net_subclass()
    nets = [Net(vobj[n["source"]], sinks_arg(vobj, n), n["weight"])
            for n in case["nets"]]
    cons = []
    sub = case.get("subcls", False)
    LocationConstraint = pr.constraint_class(LocationConstraint, sub)
    SameChipConstraint = pr.constraint_class(SameChipConstraint, sub)
    ReserveResourceConstraint = pr.constraint_class(ReserveResourceConstraint,
                                                    sub)
    for c in case["constraints"]:
        if c["type"] == "loc":
            cons.append(LocationConstraint(vobj[c["v"]], tuple(c["chip"])))
        elif c["type"] == "same":
            cons.append(SameChipConstraint([vobj[v] for v in c["vs"]]))
        elif c["type"] == "reserve":
            cons.append(ReserveResourceConstraint(
                pr.resource(c["res"]), slice(c["start"], c["stop"]),
                None if c["loc"] is None else tuple(c["loc"])))
        elif c["type"] == "endpoint":
            from rig.place_and_route.constraints import \
                RouteEndpointConstraint
            from rig.routing_table import Routes
            cons.append(pr.constraint_class(RouteEndpointConstraint, sub)(
                vobj[c["v"]], Routes(c["route"])))
        elif c["type"] == "align":
            from rig.place_and_route.constraints import \
                AlignResourceConstraint
            cons.append(pr.constraint_class(AlignResourceConstraint, sub)(
                pr.resource(c["res"]), c["alignment"]))
    return vr, nets, machine, cons, vobj


def placement_problems(case, placement_by_name):
    """Feasibility predicate.  placement_by_name: {name: (x, y)}.
    Returns None if feasible, else a description."""
    m = case["machine"]
    live = set(pr.live_chips(m))
    names = [v["name"] for v in case["vertices"]]
    if set(placement_by_name) != set(names):
        return {"why": "placement does not cover exactly the vertices",
                "missing": sorted(set(names) - set(placement_by_name)),
                "extra": sorted(map(repr, set(placement_by_name) -
                                    set(names)))}
    for n, c in placement_by_name.items():
        if not (isinstance(c, tuple) and len(c) == 2 and c in live):
            return {"why": "vertex placed on a chip that is dead or outside "
                    "the machine", "vertex": n, "chip": repr(c)}
    load = {}
    for v in case["vertices"]:
        c = placement_by_name[v["name"]]
        for r, q in v["needs"].items():
            load[(c, r)] = load.get((c, r), 0) + q
    reserved = {}
    for c in case["constraints"]:
        if c["type"] == "reserve":
            size = c["stop"] - c["start"]
            for chip in (live if c["loc"] is None else [tuple(c["loc"])]):
                reserved[(chip, c["res"])] = \
                    reserved.get((chip, c["res"]), 0) + size
    for (chip, r), q in load.items():
        cap = pr.chip_capacity(m, chip).get(r, 0) - reserved.get((chip, r), 0)
        if q > cap:
            return {"why": "chip over-allocated", "chip": list(chip),
                    "resource": r, "placed": q, "available": cap}
    for c in case["constraints"]:
        if c["type"] == "loc":
            if placement_by_name[c["v"]] != tuple(c["chip"]):
                return {"why": "location constraint not honoured",
                        "vertex": c["v"], "wanted": c["chip"],
                        "got": list(placement_by_name[c["v"]])}
    same = [c["vs"] for c in case["constraints"] if c["type"] == "same"]
    for g in same_chip_groups(names, same):
        if len(set(placement_by_name[v] for v in g)) > 1:
            return {"why": "same-chip group split over several chips",
                    "group": sorted(g),
                    "chips": sorted(set(map(list, (placement_by_name[v]
                                                   for v in g))))}
    return None
