"""Strategies for routing tables over a small set of active key bits."""
from hypothesis import strategies as st

ROUTE_POOL_BITS = list(range(24))


@st.composite
def keyspace(draw, max_active):
    n = draw(st.integers(1, max_active))
    bits = sorted(draw(st.sets(st.integers(0, 31), min_size=n, max_size=n)))
    others = [b for b in range(32) if b not in bits]
    # remaining bits: constant (masked in) or X in every entry
    const_mask = 0
    const_key = 0
    style = draw(st.sampled_from(["allconst", "allx", "mixed"]))
    for b in others:
        if style == "allconst":
            c = True
        elif style == "allx":
            c = False
        else:
            c = draw(st.booleans())
        if c:
            const_mask |= 1 << b
            if draw(st.booleans()):
                const_key |= 1 << b
    return {"bits": bits, "const_mask": const_mask, "const_key": const_key}


def route_strategy():
    link = st.integers(0, 5)
    core = st.integers(6, 23)
    return st.one_of(
        st.sets(link, min_size=1, max_size=1),
        st.sets(st.one_of(link, core), min_size=0, max_size=4),
        st.sets(st.integers(0, 23), min_size=1, max_size=24),
    ).map(sorted)


def sources_strategy():
    link = st.integers(0, 5)
    return st.one_of(
        st.just([None]),
        st.sets(link, min_size=1, max_size=1).map(sorted),
        st.sets(link, min_size=1, max_size=3).map(sorted),
        st.sets(link, min_size=1, max_size=2).map(
            lambda s: [None] + sorted(s)),
    )


@st.composite
def entry_payload(draw, routes):
    """(route, sources) with a tunable fraction of default-routable shapes."""
    if draw(st.integers(0, 3)) == 0:
        s = draw(st.integers(0, 5))
        return [(s + 3) % 6], [s]
    return draw(st.sampled_from(routes)), draw(sources_strategy())


@st.composite
def orthogonal_patterns(draw, n_bits, max_entries, min_entries=0):
    """A prefix-free (partition-derived) set of patterns over n_bits."""
    leaves = ["X" * n_bits]
    want = draw(st.integers(min_entries, max_entries))
    while len(leaves) < want:
        splittable = [i for i, p in enumerate(leaves) if "X" in p]
        if not splittable:
            break
        i = splittable[draw(st.integers(0, len(splittable) - 1))]
        p = leaves.pop(i)
        xs = [j for j, c in enumerate(p) if c == "X"]
        j = xs[draw(st.integers(0, len(xs) - 1))]
        leaves.append(p[:j] + "0" + p[j + 1:])
        leaves.append(p[:j] + "1" + p[j + 1:])
    # keep a subset, in a drawn order
    keep = draw(st.lists(st.booleans(), min_size=len(leaves),
                         max_size=len(leaves)))
    pats = [p for p, k in zip(leaves, keep) if k or len(leaves) <= 2]
    return draw(st.permutations(pats)) if pats else []


@st.composite
def table(draw, max_active=6, max_entries=40, kind=None, ks=None,
          min_entries=0):
    ks = dict(ks) if ks is not None else draw(keyspace(max_active))
    n = len(ks["bits"])
    kind = kind or draw(st.sampled_from(["orthogonal", "generality", "free"]))
    routes = draw(st.lists(route_strategy(), min_size=1, max_size=4))
    if kind == "orthogonal":
        pats = draw(orthogonal_patterns(n, max_entries, min_entries))
    else:
        pat = st.text(alphabet="01X", min_size=n, max_size=n)
        biased = st.text(alphabet="01", min_size=n, max_size=n)
        pats = draw(st.lists(st.one_of(pat, biased), min_size=min_entries,
                             max_size=max_entries))
        if kind == "generality":
            pats = sorted(pats, key=lambda p: p.count("X"))   # stable
    entries = []
    for p in pats:
        route, sources = draw(entry_payload(routes))
        entries.append({"pat": p, "route": route, "sources": sources})
    return dict(ks, kind=kind, entries=entries)


def pattern_key_mask(ks, pat):
    key, mask = ks["const_key"], ks["const_mask"]
    for c, b in zip(pat, ks["bits"]):
        if c != "X":
            mask |= 1 << b
            if c == "1":
                key |= 1 << b
    return key, mask


def model_table(tab):
    """[(key, mask, frozenset route, set sources)] for the oracle."""
    out = []
    for e in tab["entries"]:
        k, m = pattern_key_mask(tab, e["pat"])
        out.append((k, m, frozenset(e["route"]), set(e["sources"])))
    return out


def rig_table(tab):
    from rig.routing_table import RoutingTableEntry, Routes
    out = []
    for e in tab["entries"]:
        k, m = pattern_key_mask(tab, e["pat"])
        out.append(RoutingTableEntry(
            set(Routes(r) for r in e["route"]), k, m,
            set(None if s is None else Routes(s) for s in e["sources"])))
    return out


def from_rig(entries):
    return [(int(e.key), int(e.mask), frozenset(int(r) for r in e.route),
             set(None if s is None else int(s) for s in e.sources))
            for e in entries]


def base_keys(tab):
    """Values of the non-active bits to try: the constants with the common-X
    bits at 0, at 1 and in an alternating pattern."""
    free = 0xffffffff & ~tab["const_mask"]
    for b in tab["bits"]:
        free &= ~(1 << b)
    return sorted(set([tab["const_key"], tab["const_key"] | free,
                       tab["const_key"] | (free & 0x55555555)]))
