"""Probe calls for C17: a probe is a JSON spec; run_probe(spec) executes one
library call and returns a canonical JSON-able result.  Run as a module it
reads a spec from stdin and prints the result, so the same probe can be made
as the very first library call of a fresh interpreter."""
import json
import sys


_TAG_SETS = {}      # tag sets the "user program" keeps for the whole process


def canon_table(entries):
    return [[int(e.key), int(e.mask), sorted(int(r) for r in e.route),
             sorted((None if s is None else int(s)) for s in e.sources)
             if None not in e.sources else
             [None] + sorted(int(s) for s in e.sources if s is not None)]
            for e in entries]


def run_probe(spec):
    kind = spec["kind"]
    if kind == "place":
        from vf.props import c02
        from vf.core import Violation
        try:
            k, out = c02.run_placer(spec["case"])
        except Violation as v:
            return ["violation", v.message]
        if k == "failed":
            return ["failed", type(out).__name__]
        return ["placed", sorted((n, list(c)) for n, c in out.items())]
    if kind == "pipeline":
        from vf.props import c01
        try:
            out = c01.run_pipeline(spec["case"])
        except Exception as e:                      # documented failures
            return ["failed", type(e).__name__]
        return ["ok",
                sorted((n, list(c)) for n, c in out["placements"].items()),
                sorted((n, None if s is None else [s.start, s.stop])
                       for n, s in out["cores"].items()),
                sorted(([c[0], c[1]], [[k, m, sorted(r), sorted(
                    s, key=repr)] for k, m, r, s in t])
                    for c, t in out["tables"].items())]
    if kind == "route":
        from vf.props import c03
        from vf.core import Violation
        try:
            routes, nets, vobj = c03.run_route(spec["case"])
        except Exception as e:
            return ["failed", type(e).__name__]
        return ["routed", [c03._shape(routes[n]) for n in nets]]
    if kind == "minimise":
        from vf.props import c04
        from vf.gen import tables as gt
        case = spec["case"]
        k, out = c04._run_single(case["fn"], gt.rig_table(case["table"]),
                                 case["target"])
        if k == "failed":
            return ["failed", out.target_length, out.final_length]
        return ["ok", canon_table(out)]
    if kind == "bitfield":
        from vf.props import c08
        from vf.core import Violation
        try:
            model, stats = c08.run_history(spec["case"],
                                           shared_pool=_TAG_SETS)
        except Violation as v:
            return ["violation", v.message]
        return ["ok", stats["layouts"], [
            [sorted(n.req.items()), [[f["name"], f["start"], f["length"],
                                      sorted(f["tags"])] for f in n.fields]]
            for n in model.nodes]]
    if kind == "controller":
        from vf.props import c17
        return c17.controller_probe(spec)
    raise ValueError(kind)


def serve():
    """Fresh-state server: import everything the probes need, make no library
    call, then answer each spec (one JSON line) from a forked child - the
    child's library state is that of an interpreter which has only imported
    the modules, so every probe is the first call of its process."""
    import os
    import importlib
    for mod in ("vf.props.c01", "vf.props.c02", "vf.props.c03",
                "vf.props.c04", "vf.props.c08", "vf.props.c17",
                "rig.place_and_route", "rig.routing_table", "rig.bitfield",
                "rig.machine_control"):
        importlib.import_module(mod)
    out = sys.stdout
    out.write("PROBE-SERVER-READY\n")
    out.flush()
    for line in sys.stdin:
        line = line.strip()
        if not line:
            continue
        r, w = os.pipe()
        pid = os.fork()
        if pid == 0:
            code = 0
            try:
                os.close(r)
                res = run_probe(json.loads(line))
                text = "PROBE-RESULT:" + json.dumps(res, sort_keys=True,
                                                    default=repr)
            except BaseException as e:      # reported to the caller
                import traceback
                text = "PROBE-ERROR:" + json.dumps(
                    traceback.format_exc()[-1500:])
                code = 1
            try:
                with os.fdopen(w, "w") as f:
                    f.write(text + "\n")
            finally:
                os._exit(code)
        os.close(w)
        with os.fdopen(r) as f:
            text = f.read()
        os.waitpid(pid, 0)
        if not text.startswith("PROBE-"):
            text = "PROBE-ERROR:" + json.dumps("child died without a result")
        out.write(text.strip().splitlines()[-1] + "\n")
        out.flush()


if __name__ == "__main__":
    if sys.argv[1:] == ["--serve"]:
        serve()
        sys.exit(0)
    spec = json.load(sys.stdin)
    out = run_probe(spec)
    sys.stdout.write("PROBE-RESULT:" + json.dumps(out, sort_keys=True,
                                                  default=repr) + "\n")
