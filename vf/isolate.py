"""Run a clause's check in a process whose library state is that of a fresh
interpreter.

Some clauses are about what a call leaves behind in the process (module-level
caches, mutable defaults).  If their cases ran one after another in a pool
worker, a case's verdict could depend on the cases before it and its replay
file would not reproduce.  Such clauses are declared with isolate=True: the
worker talks to a server (python -m vf.isolate <property>) which has imported
the property module and the library but called nothing, and which forks one
child per case.
"""
import importlib
import json
import os
import signal
import subprocess
import sys
import traceback

from vf.core import HarnessError, Inconclusive, Violation

_servers = {}


def _env():
    here = os.path.dirname(os.path.dirname(os.path.abspath(__file__)))
    env = dict(os.environ)
    env["PYTHONPATH"] = os.pathsep.join(
        [os.environ.get("RIG_REPO", "/repo"), here,
         os.path.join(here, ".deps")])
    env["PYTHONHASHSEED"] = "0"
    env["PYTHONWARNINGS"] = "ignore"
    return env, here


def run(pid, clause_name, case):
    """check(case) of the named clause in a fresh-state child: returns its
    outcome, raises Violation / HarnessError like the check itself."""
    key = (os.getpid(), pid)
    srv = _servers.get(key)
    if srv is None or srv.poll() is not None:
        env, here = _env()
        srv = subprocess.Popen(
            [sys.executable, "-m", "vf.isolate", pid],
            stdin=subprocess.PIPE, stdout=subprocess.PIPE,
            stderr=subprocess.DEVNULL, text=True, env=env, cwd=here)
        ready = srv.stdout.readline()
        if not ready.startswith("ISOLATE-READY"):
            raise HarnessError("isolation server did not start: %r" % ready)
        for k in [k for k in _servers if k[0] != os.getpid()]:
            del _servers[k]
        _servers[key] = srv
    srv.stdin.write(json.dumps({"clause": clause_name, "case": case}) + "\n")
    srv.stdin.flush()
    while True:
        line = srv.stdout.readline()
        if not line:
            raise HarnessError("isolation server died")
        if line.startswith("ISOLATE-OUT:"):
            out = json.loads(line[len("ISOLATE-OUT:"):])
            break
    if out[0] == "ok":
        return out[1]
    if out[0] == "violation":
        raise Violation(out[1], out[2])
    raise HarnessError("isolated check failed:\n%s" % out[1])


class CaseTimeout(Inconclusive):
    pass


def _case_alarm(signum, frame):
    raise CaseTimeout("the case did not finish within VERIF_CASE_TIMEOUT")


def serve(pid):
    mod = importlib.import_module("vf.props." + pid.lower())
    for name in getattr(mod, "IMPORTS", []):
        importlib.import_module(name)
    clauses = dict((c.name, c) for c in mod.CLAUSES)
    out = sys.stdout
    out.write("ISOLATE-READY\n")
    out.flush()
    for line in sys.stdin:
        line = line.strip()
        if not line:
            continue
        req = json.loads(line)
        r, w = os.pipe()
        child = os.fork()
        if child == 0:
            try:
                os.close(r)
                try:
                    # a case that hangs must not hang the server
                    signal.signal(signal.SIGALRM, _case_alarm)
                    signal.alarm(int(os.environ.get("VERIF_CASE_TIMEOUT",
                                                    "300")))
                    res = ["ok", clauses[req["clause"]].check(req["case"])]
                except Violation as v:
                    res = ["violation", v.message, v.details]
                except BaseException:
                    res = ["error", traceback.format_exc()[-3000:]]
                with os.fdopen(w, "w") as f:
                    f.write(json.dumps(res, default=repr))
            finally:
                os._exit(0)
        os.close(w)
        with os.fdopen(r) as f:
            text = f.read()
        os.waitpid(child, 0)
        if not text:
            text = json.dumps(["error", "child died without a result"])
        out.write("ISOLATE-OUT:" + text.replace("\n", " ") + "\n")
        out.flush()


if __name__ == "__main__":
    serve(sys.argv[1])
