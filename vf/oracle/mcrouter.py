"""Multicast packet simulator with hardware default routing.

tables: {(x, y): [(key, mask, route frozenset[int], sources)]} (first match)
machine case m as in vf.gen.pr.
"""
from vf.gen import pr
from vf.oracle.firstmatch import first_match


class RoutingFault(Exception):
    def __init__(self, why, details):
        Exception.__init__(self, why)
        self.why = why
        self.details = details


def simulate(m, tables, source_chip, key, device_exits=()):
    """Inject a packet with `key` at source_chip.

    device_exits: set of (chip, link) where the packet legitimately leaves
    the machine towards an external device (route-endpoint constraints).
    Returns (core_deliveries, device_deliveries): dicts ((chip, core) -> count,
    (chip, link) -> count).  Raises RoutingFault for a drop, an illegal hop or
    a packet that circulates."""
    live = set(pr.live_chips(m))
    working = pr.working_links(m)
    cores = {}
    devices = {}
    limit = 4 * m["w"] * m["h"] + 8
    seen = set()
    frontier = [(tuple(source_chip), None, 0)]
    while frontier:
        chip, travelling, hops = frontier.pop()
        state = (chip, travelling)
        if state in seen or hops > limit:
            raise RoutingFault("packet circulates", {
                "chip": list(chip), "direction": travelling, "hops": hops})
        seen.add(state)
        table = tables.get(chip, [])
        i = first_match(table, key)
        if i is None:
            if travelling is None:
                raise RoutingFault("packet dropped at the chip it was "
                                   "injected on (no entry matches)",
                                   {"chip": list(chip)})
            outs = [travelling]          # default routing: straight on
        else:
            outs = sorted(table[i][2])
            if not outs:
                # an entry with an empty route absorbs the packet
                continue
        for r in outs:
            if r >= 6:
                cores[(chip, r - 6)] = cores.get((chip, r - 6), 0) + 1
                continue
            if (chip, r) in device_exits:
                devices[(chip, r)] = devices.get((chip, r), 0) + 1
                continue
            if (chip[0], chip[1], r) not in working:
                raise RoutingFault("packet sent down a link that is not "
                                   "working", {"chip": list(chip), "link": r,
                                               "default_routed": i is None})
            n = pr.neighbour(m, chip, r)
            if n not in live:
                raise RoutingFault("packet sent to a chip that is dead",
                                   {"chip": list(chip), "link": r,
                                    "to": list(n)})
            frontier.append((n, r, hops + 1))
    return cores, devices
