"""Independent reader of sark.struct (regular expressions over the text, no
rig code) and little-endian packer of struct defaults."""
import os
import re
import struct

SIZES = {"C": 1, "c": 1, "v": 2, "V": 4}
FMT = {"C": "B", "c": "b", "v": "H", "V": "I"}


class Field(object):
    def __init__(self, name, perl, offset, default, count):
        self.name = name
        self.perl = perl          # C, c, v, V or A<n>
        self.offset = offset
        self.default = default
        self.count = count        # number of elements (array fields)

    @property
    def elem_size(self):
        if self.perl.startswith("A"):
            return int(self.perl[1:])
        return SIZES[self.perl]

    @property
    def size(self):
        if self.perl.startswith("A"):
            return int(self.perl[1:])
        return SIZES[self.perl] * self.count

    def pack(self, value):
        """Little-endian bytes of one element (or of the whole string)."""
        if self.perl.startswith("A"):
            n = int(self.perl[1:])
            return bytes(value)[:n].ljust(n, b"\0")
        return struct.pack("<" + FMT[self.perl], value)

    def unpack(self, data):
        if self.perl.startswith("A"):
            return bytes(data)
        vals = struct.unpack("<%d%s" % (self.count, FMT[self.perl]), data)
        return vals[0] if self.count == 1 else tuple(vals)


class Struct(object):
    def __init__(self, name):
        self.name = name
        self.size = None
        self.base = None
        self.fields = {}          # last definition of a name wins
        self.order = []


def _num(s):
    return int(s, 16) if s.lower().startswith("0x") else int(s)


def parse(text):
    structs = {}
    cur = None
    for line in text.splitlines():
        line = re.sub(r"#.*$", "", line).strip()
        if not line:
            continue
        m = re.match(r"^(name|size|base)\s*=\s*(\S+)$", line)
        if m:
            if m.group(1) == "name":
                cur = Struct(m.group(2))
                structs[cur.name] = cur
            elif m.group(1) == "size":
                cur.size = _num(m.group(2))
            else:
                cur.base = _num(m.group(2))
            continue
        parts = line.split()
        assert len(parts) == 5, line
        name, perl, offset, _printf, default = parts
        count = 1
        m = re.match(r"^(\w+)\[(\d+)\]$", name)
        if m:
            name, count = m.group(1), int(m.group(2))
        f = Field(name, perl, _num(offset), _num(default), count)
        cur.fields[name] = f
        cur.order.append(f)
    return structs


def load(repo=None):
    repo = repo or os.environ.get("RIG_REPO", "/repo")
    with open(os.path.join(repo, "rig", "boot", "sark.struct")) as f:
        return parse(f.read())


def pack_defaults(st, overrides=None):
    """Bytes of the struct with every field at its default (first element of
    array fields only, as a single packed value, which is what the boot code
    documents), overrides applied."""
    overrides = overrides or {}
    data = bytearray(st.size)
    for f in st.fields.values():
        v = overrides.get(f.name, f.default)
        b = f.pack(v)
        data[f.offset:f.offset + len(b)] = b
    return bytes(data)
