"""Hexagonal mesh / torus distances, independent of rig.geometry.

Chips are (x, y); the six neighbours of a chip are reached by the vectors
E (1,0), NE (1,1), N (0,1), W (-1,0), SW (-1,-1), S (0,-1).
"""
import collections

VECTORS = {0: (1, 0), 1: (1, 1), 2: (0, 1), 3: (-1, 0), 4: (-1, -1),
           5: (0, -1)}


def hexnorm(dx, dy):
    """Graph distance from (0,0) to (dx,dy) in the infinite hexagonal mesh."""
    if (dx >= 0) == (dy >= 0):
        return max(abs(dx), abs(dy))
    return abs(dx) + abs(dy)


_bfs_cache = {}


def torus_bfs(w, h):
    """dict (dx, dy) -> graph distance from (0, 0) on the w x h torus."""
    key = (w, h)
    if key in _bfs_cache:
        return _bfs_cache[key]
    dist = {(0, 0): 0}
    q = collections.deque([(0, 0)])
    while q:
        x, y = q.popleft()
        d = dist[(x, y)]
        for vx, vy in VECTORS.values():
            n = ((x + vx) % w, (y + vy) % h)
            if n not in dist:
                dist[n] = d + 1
                q.append(n)
    if len(_bfs_cache) > 64:
        _bfs_cache.clear()
    _bfs_cache[key] = dist
    return dist


def torus_distance_images(dx, dy, w, h):
    """Torus distance as the minimum mesh distance over lattice images."""
    dx %= w
    dy %= h
    kx = h // w + 2
    ky = w // h + 2
    best = None
    for i in range(-kx, kx + 1):
        for j in range(-ky, ky + 1):
            d = hexnorm(dx + i * w, dy + j * h)
            if best is None or d < best:
                best = d
    return best


def mesh_bfs(radius):
    """dict (dx, dy) -> distance, for everything within `radius` hops."""
    dist = {(0, 0): 0}
    q = collections.deque([(0, 0)])
    while q:
        x, y = q.popleft()
        d = dist[(x, y)]
        if d == radius:
            continue
        for vx, vy in VECTORS.values():
            n = (x + vx, y + vy)
            if n not in dist:
                dist[n] = d + 1
                q.append(n)
    return dist


def self_check():
    m = mesh_bfs(7)
    for (x, y), d in m.items():
        assert hexnorm(x, y) == d, (x, y, d)
    for w in range(1, 8):
        for h in range(1, 8):
            b = torus_bfs(w, h)
            for (x, y), d in b.items():
                assert torus_distance_images(x, y, w, h) == d, (w, h, x, y)
    return True
