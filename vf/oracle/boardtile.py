"""The 48-chip SpiNN-5 board as an explicit tile, and the three-board tiling.

Written from the hardware description (a SpiNN-5 board is a hexagon of 48
chips whose rows, bottom to top, hold 5, 6, 7, 8, 7, 6, 5, 4 chips; the
Ethernet chip is the bottom-left one; three boards tile a 12 x 12 cell with
origins (0, 0), (4, 8) and (8, 4)).  No rig code is used.
"""

ROWS = [(0, 4), (0, 5), (0, 6), (0, 7), (1, 7), (2, 7), (3, 7), (4, 7)]
TILE = frozenset((x, y) for y, (lo, hi) in enumerate(ROWS)
                 for x in range(lo, hi + 1))
ORIGINS = ((0, 0), (4, 8), (8, 4))

# the six link vectors, by link number (E, NE, N, W, SW, S)
LINK_VECTORS = {0: (1, 0), 1: (1, 1), 2: (0, 1), 3: (-1, 0), 4: (-1, -1),
                5: (0, -1)}


def self_check():
    assert len(TILE) == 48
    seen = {}
    for ox, oy in ORIGINS:
        for (x, y) in TILE:
            c = ((x + ox) % 12, (y + oy) % 12)
            assert c not in seen, c
            seen[c] = (ox, oy)
    assert len(seen) == 144
    return True


def _build_cell():
    cell = {}
    for ox, oy in ORIGINS:
        for (x, y) in TILE:
            cell[((x + ox) % 12, (y + oy) % 12)] = (x, y)
    return cell


CELL = _build_cell()    # (x%12, y%12) relative to the root -> on-board coord


def board_coord(x, y, root_x=0, root_y=0):
    """Coordinate of chip (x, y) on its board."""
    return CELL[((x - root_x) % 12, (y - root_y) % 12)]


def board_origin(x, y, root_x=0, root_y=0):
    """Un-wrapped coordinate of the Ethernet chip of the board holding (x, y)."""
    bx, by = board_coord(x, y, root_x, root_y)
    return (x - bx, y - by)


def is_origin(x, y, root_x=0, root_y=0):
    return board_coord(x, y, root_x, root_y) == (0, 0)


def leaves_board(bx, by, link):
    dx, dy = LINK_VECTORS[link]
    return (bx + dx, by + dy) not in TILE
