"""First-match routing table semantics (independent of rig.routing_table).

A table is a list of (key, mask, route frozenset[int], sources set[int|None]).
"""


def first_match(table, key):
    for i, (k, m, route, sources) in enumerate(table):
        if key & m == k:
            return i
    return None


def default_routable(entry):
    """One link in, the opposite link out, nothing else."""
    k, m, route, sources = entry
    if len(route) != 1 or len(sources) != 1:
        return False
    (r,) = tuple(route)
    (s,) = tuple(sources)
    if s is None or r >= 6 or s >= 6:
        return False
    return (s + 3) % 6 == r


def assignments(bits):
    """All keys formed by assigning 0/1 to the given bit positions."""
    n = len(bits)
    for a in range(1 << n):
        k = 0
        for i, b in enumerate(bits):
            if a & (1 << i):
                k |= 1 << b
        yield k


def compare(original, result, bits, base_keys):
    """Check `result` routes every key matched by `original` identically.

    bits: active bit positions; base_keys: values for the remaining bits to
    try.  Returns None or a dict describing the first disagreement.
    """
    for base in base_keys:
        for a in assignments(bits):
            key = base | a
            i = first_match(original, key)
            if i is None:
                continue
            e = original[i]
            j = first_match(result, key)
            if j is None:
                if default_routable(e):
                    continue
                return {"key": key, "why": "matched by the original, matched "
                        "by nothing in the result and not default-routable",
                        "original_entry": i}
            r = result[j]
            if r[2] != e[2]:
                return {"key": key, "why": "routed differently",
                        "original_entry": i, "result_entry": j,
                        "original_route": sorted(e[2]),
                        "result_route": sorted(r[2])}
            if not set(e[3]) <= set(r[3]):
                return {"key": key, "why": "first matching entry of the "
                        "result does not list the original's sources",
                        "original_entry": i, "result_entry": j,
                        "original_sources": sorted(e[3], key=repr),
                        "result_sources": sorted(r[3], key=repr)}
    return None
