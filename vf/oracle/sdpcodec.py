"""Reference SDP / SCP codec written from the documented wire layout.

    bytes 0-1   padding (zero)
    byte  2     flags: 0x87 reply expected, 0x07 no reply
    byte  3     IP tag
    byte  4     destination port (3 bits, MSBs) | destination core (5 bits)
    byte  5     source port | source core
    byte  6     destination y        byte 7  destination x
    byte  8     source y             byte 9  source x
    SCP:  bytes 10-11 cmd_rc (LE)   12-13 seq (LE)   then 0-3 arguments
          (32 bit LE each) then the payload.
"""

SDP_FIELDS = ["reply_expected", "tag", "dest_port", "dest_cpu", "src_port",
              "src_cpu", "dest_x", "dest_y", "src_x", "src_y", "data"]
SCP_FIELDS = SDP_FIELDS + ["cmd_rc", "seq", "arg1", "arg2", "arg3"]


def _le(v, n):
    return bytes((v >> (8 * i)) & 0xff for i in range(n))


def _un(b):
    v = 0
    for i, x in enumerate(b):
        v |= x << (8 * i)
    return v


def encode_sdp(p):
    return bytes([0, 0, 0x87 if p["reply_expected"] else 0x07, p["tag"],
                  (p["dest_port"] << 5) | p["dest_cpu"],
                  (p["src_port"] << 5) | p["src_cpu"],
                  p["dest_y"], p["dest_x"], p["src_y"], p["src_x"]]) + \
        bytes(p["data"])


def encode_scp(p):
    body = _le(p["cmd_rc"], 2) + _le(p["seq"], 2)
    for a in ("arg1", "arg2", "arg3"):
        if p.get(a) is not None:
            body += _le(p[a], 4)
    q = dict(p)
    q["data"] = body + bytes(p["data"])
    return encode_sdp(q)


def decode_sdp(b):
    return {"reply_expected": b[2] == 0x87, "tag": b[3],
            "dest_port": b[4] >> 5, "dest_cpu": b[4] & 0x1f,
            "src_port": b[5] >> 5, "src_cpu": b[5] & 0x1f,
            "dest_y": b[6], "dest_x": b[7], "src_y": b[8], "src_x": b[9],
            "data": bytes(b[10:])}


def decode_scp(b, n_args):
    p = decode_sdp(b)
    d = p["data"]
    p["cmd_rc"] = _un(d[0:2])
    p["seq"] = _un(d[2:4])
    rest = d[4:]
    n = max(0, min(n_args, 3, len(rest) // 4))
    for i, a in enumerate(("arg1", "arg2", "arg3")):
        p[a] = _un(rest[4 * i:4 * i + 4]) if i < n else None
    p["data"] = bytes(rest[4 * n:])
    return p
