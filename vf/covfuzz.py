"""Coverage-guided search over a clause's own Hypothesis strategy.

Run as:  python -m vf.covfuzz <ID> <clause> <tier> <out dir> [libFuzzer options] <corpus dir>

libFuzzer (through Atheris) mutates a byte string; Hypothesis'
`fuzz_one_input` turns the bytes into the choices of the clause's strategy, so
the generated *case* is exactly what the Hypothesis engine would hand to
check(case) - same domain, same oracle - but the search is steered by branch
coverage of the instrumented `rig` package instead of being blind.  A
Violation writes the case to <out dir>/violation.json and stops the campaign;
the parent (vf/runner.py:_run_cov) replays it through check() without any
engine before believing it.
"""
import json
import os
import sys


def main():
    pid, clause_name, tier, out = sys.argv[1:5]
    rest = sys.argv[5:]
    import atheris
    with atheris.instrument_imports(include=["rig"]):
        # the property modules import most of rig lazily: import the whole
        # package now so that all of it is instrumented
        import importlib
        import pkgutil
        import rig
        for m in pkgutil.walk_packages(rig.__path__, "rig."):
            if ".scripts" in m.name or m.name.endswith("_test"):
                continue
            try:
                importlib.import_module(m.name)
            except Exception:
                pass
        from vf.runner import load_property
        mod = load_property(pid)
    clause = [c for c in mod.CLAUSES if c.name == clause_name][0]
    clause.property_id = pid
    from hypothesis import given, settings, HealthCheck, Verbosity
    from vf.core import Violation, canonical, case_hash

    stats = {"executions": 0, "cases": 0, "nontrivial": 0, "classes": {},
             "samples": []}
    seen = set()
    stats_path = os.path.join(out, "stats.json")

    def flush():
        tmp = stats_path + ".tmp"
        with open(tmp, "w") as f:
            json.dump(stats, f, default=repr)
        os.replace(tmp, stats_path)

    def body(case):
        stats["cases"] += 1
        try:
            outcome = clause.check(case)
        except Violation as v:
            with open(os.path.join(out, "violation.json"), "w") as f:
                json.dump({"case": case, "message": v.message}, f,
                          default=repr)
            flush()
            raise
        if outcome:
            for c in outcome.get("classes", ()):
                stats["classes"][c] = stats["classes"].get(c, 0) + 1
            if outcome.get("nontrivial"):
                h = case_hash(case)
                if h not in seen:
                    if len(seen) < 200000:
                        seen.add(h)
                    stats["nontrivial"] = len(seen)
                    if len(stats["samples"]) < 3:
                        text = canonical(case)
                        if len(text) < 6000:
                            stats["samples"].append(case)

    test = given(clause.strategy(tier))(body)
    test = settings(database=None, deadline=None, verbosity=Verbosity.quiet,
                    suppress_health_check=list(HealthCheck))(test)
    fuzz_one = test.hypothesis.fuzz_one_input

    def one(data):
        stats["executions"] += 1
        if stats["executions"] % 500 == 0:
            flush()
        fuzz_one(bytes(data))

    atheris.Setup([sys.argv[0]] + rest, one)
    flush()
    import atexit  # noqa  (libFuzzer exits through _exit: flush on the way)
    try:
        atheris.Fuzz()
    finally:
        flush()


if __name__ == "__main__":
    main()
