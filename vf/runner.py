"""Runner: ./check <ID> [--tier quick|thorough] [--replay FILE]

Exit codes: 0 property held on everything explored, 1 violation (a line
"VIOLATION property=<ID> replay=<path>" is printed), 2 harness error.
"""
import argparse
import collections
import hashlib
import importlib
import json
import multiprocessing
import os
import sys
import time
import traceback

from vf.core import Violation, HarnessError, canonical, case_hash

HERE = os.path.dirname(os.path.dirname(os.path.abspath(__file__)))
SAMPLE_LIMIT = 6000


def _seed_for(pid, clause, shard, seed):
    h = hashlib.sha256(("%s|%s|%d|%d" % (pid, clause, shard, seed))
                       .encode()).hexdigest()
    return int(h[:15], 16)


def load_property(pid):
    return importlib.import_module("vf.props." + pid.lower())


def probe_imports(mod):
    for name in getattr(mod, "IMPORTS", []):
        try:
            importlib.import_module(name)
        except Exception:
            return name, traceback.format_exc()
    return None


class _Collector(object):
    def __init__(self, clause):
        self.clause = clause
        self.evaluations = 0
        self.nontrivial = set()
        self.classes = collections.Counter()
        self.samples = []
        self.documented = 0
        self.excluded = 0
        self.failure = None          # (case, message, details)
        self.fail_count = 0
        self.harness = None
        self.shrink_started = None
        self.shrink_truncated = False

    def record(self, case, outcome):
        self.evaluations += 1
        outcome = outcome or {}
        for c in outcome.get("classes", ()):
            self.classes[c] += 1
        if outcome.get("documented"):
            self.documented += 1
        self.excluded += outcome.get("excluded", 0)
        if outcome.get("nontrivial"):
            h = case_hash(case)
            if h not in self.nontrivial:
                self.nontrivial.add(h)
                if len(self.samples) < 40:
                    text = canonical(case)
                    if len(text) <= SAMPLE_LIMIT:
                        self.samples.append((len(text), case))

    def result(self):
        self.samples.sort(key=lambda s: s[0])
        # a small, a median and a large sample
        picks = []
        if self.samples:
            idx = sorted(set([0, len(self.samples) // 2,
                              len(self.samples) - 1]))
            picks = [self.samples[i][1] for i in idx]
        return {
            "clause": self.clause.name,
            "evaluations": self.evaluations,
            "nontrivial": list(self.nontrivial),
            "classes": dict(self.classes),
            "samples": picks,
            "documented": self.documented,
            "excluded": self.excluded,
            "failure": self.failure,
            "harness": self.harness,
            "shrink_truncated": self.shrink_truncated,
        }


class TaskWatchdog(HarnessError):
    pass


def _task_alarm(signum, frame):
    raise TaskWatchdog("task exceeded its wall-clock watchdog")


def run_task(args):
    pid, clause_index, shard, nshards, tier, seed, examples = args[:7]
    engine = args[7] if len(args) > 7 else None
    mod = load_property(pid)
    clause = mod.CLAUSES[clause_index]
    clause.property_id = pid
    col = _Collector(clause)
    import signal
    limit = int(os.environ.get("VERIF_TASK_WATCHDOG",
                               "900" if tier == "quick" else "14400"))
    try:
        signal.signal(signal.SIGALRM, _task_alarm)
        signal.alarm(limit)
    except ValueError:
        pass
    # an address-space cap per task: code under test that starts to allocate
    # without bound ends in MemoryError (no verdict: harness error) instead
    # of taking the machine down
    try:
        import resource
        cap = int(os.environ.get("VERIF_TASK_MEM_MB", "6144")) << 20
        soft, hard = resource.getrlimit(resource.RLIMIT_AS)
        if engine != "cov" and clause.fuzz is None and \
                (hard == resource.RLIM_INFINITY or cap <= hard):
            resource.setrlimit(resource.RLIMIT_AS, (cap, hard))
    except (ImportError, ValueError, OSError):
        pass
    try:
        if engine == "cov":
            _run_cov(pid, clause, col, tier, shard, seed, examples)
        elif clause.fuzz is not None:
            _run_fuzz(pid, clause, col, tier, shard, seed)
        elif clause.enumerate is not None:
            _run_enumeration(clause, col, tier, shard, nshards)
        else:
            _run_hypothesis(pid, clause, col, tier, shard, seed, examples)
    except BaseException:
        if col.failure is None and col.harness is None:
            col.harness = traceback.format_exc()
    finally:
        try:
            signal.alarm(0)
        except ValueError:
            pass
    return col.result()


def _run_fuzz(pid, clause, col, tier, shard, seed):
    """Atheris campaign in a child process (libFuzzer never returns)."""
    import glob
    import shutil
    import subprocess
    import tempfile
    from vf import fuzz as vfuzz
    spec = clause.fuzz
    runs = spec["runs"].get(tier, 0)
    if not runs:
        return
    env = dict(os.environ)
    env["PYTHONPATH"] = os.pathsep.join(
        [os.environ.get("RIG_REPO", "/repo"), HERE,
         os.path.join(HERE, ".deps")])
    probe = subprocess.run([sys.executable, "-c", "import atheris"], env=env,
                           capture_output=True)
    if probe.returncode != 0:
        subprocess.run([os.path.join(HERE, "setup.sh")], capture_output=True)
        probe = subprocess.run([sys.executable, "-c", "import atheris"],
                               env=env, capture_output=True)
    if probe.returncode != 0:
        col.classes["atheris-unavailable"] += 1
        return
    tmp = tempfile.mkdtemp(prefix="vf-fuzz-")
    try:
        corpus = os.path.join(tmp, "corpus")
        os.makedirs(corpus)
        seeded = shard % 2 == 1
        if seeded:                     # odd shards start from valid inputs
            for i, b in enumerate(spec.get("corpus", [])):
                with open(os.path.join(corpus, "seed%d" % i), "wb") as f:
                    f.write(b)
        stats = os.path.join(tmp, "stats.json")
        cmd = [sys.executable, "-m", "vf.fuzz", spec["target"], stats,
               "-runs=%d" % runs,
               "-seed=%d" % (_seed_for(pid, clause.name, shard, seed)
                             % (2 ** 31 - 1) + 1),
               "-max_len=%d" % spec.get("max_len", 256),
               "-artifact_prefix=" + os.path.join(tmp, "crash-"), corpus]
        subprocess.run(cmd, env=env, cwd=HERE, capture_output=True,
                       timeout=spec.get("timeout", 3000))
        if os.path.exists(stats):
            with open(stats) as f:
                st = json.load(f)
            col.evaluations += st["executions"]
            col.classes["fuzz-executions"] += st["executions"]
            col.classes["fuzz-nontrivial-executions"] += st["nontrivial"]
            col.classes["fuzz-corpus-" + ("seeded" if seeded
                                          else "empty")] += 1
        decode = vfuzz.TARGETS[spec["target"]][2]
        for path in sorted(glob.glob(os.path.join(tmp, "crash-*"))):
            with open(path, "rb") as f:
                data = f.read()
            case = decode(data)
            if case is None:
                continue
            try:
                clause.check(case)
            except Violation as v:
                col.failure = (case, v.message, v.details)
                return
            col.classes["fuzz-crash-not-reproduced"] += 1
    finally:
        shutil.rmtree(tmp, ignore_errors=True)


COV_RUNS = {"quick": 4000, "thorough": 30000}


def cov_runs(clause, tier, examples=None):
    """libFuzzer executions of one coverage-guided shard of a clause."""
    if examples:
        return examples
    if isinstance(clause.cov, dict):
        return clause.cov.get(tier, 0)
    n = int(os.environ.get("VERIF_COV_RUNS", "0")) or COV_RUNS[tier]
    return min(n, 4 * clause.examples.get(tier, 0))


def _run_cov(pid, clause, col, tier, shard, seed, examples):
    """Coverage-guided campaign over the clause's own strategy
    (vf/covfuzz.py) in a child process; a reported case is replayed through
    check() here before it counts."""
    import shutil
    import subprocess
    import tempfile
    runs = cov_runs(clause, tier, examples)
    if not runs:
        return
    env = dict(os.environ)
    env["PYTHONPATH"] = os.pathsep.join(
        [os.environ.get("RIG_REPO", "/repo"), HERE,
         os.path.join(HERE, ".deps")])
    probe = subprocess.run([sys.executable, "-c", "import atheris"], env=env,
                           capture_output=True)
    if probe.returncode != 0:
        subprocess.run([os.path.join(HERE, "setup.sh")], capture_output=True)
        probe = subprocess.run([sys.executable, "-c", "import atheris"],
                               env=env, capture_output=True)
    if probe.returncode != 0:
        col.classes["atheris-unavailable"] += 1
        return
    tmp = tempfile.mkdtemp(prefix="vf-cov-")
    try:
        corpus = os.path.join(tmp, "corpus")
        os.makedirs(corpus)
        cmd = [sys.executable, "-m", "vf.covfuzz", pid, clause.name, tier,
               tmp, "-runs=%d" % runs,
               "-seed=%d" % (_seed_for(pid, clause.name + "/cov", shard, seed)
                             % (2 ** 31 - 1) + 1),
               "-max_len=8192", "-len_control=0", "-rss_limit_mb=8000",
               "-timeout=600",
               "-artifact_prefix=" + os.path.join(tmp, "crash-"), corpus]
        limit = int(os.environ.get("VERIF_COV_TIMEOUT",
                                   "600" if tier == "quick" else "10000"))
        try:
            subprocess.run(cmd, env=env, cwd=HERE, capture_output=True,
                           timeout=limit)
        except subprocess.TimeoutExpired:
            col.classes["cov-campaign-stopped-at-time-limit"] += 1
        stats = os.path.join(tmp, "stats.json")
        if os.path.exists(stats):
            with open(stats) as f:
                st = json.load(f)
            col.evaluations += st["cases"]
            col.classes["cov-executions"] += st["executions"]
            col.classes["cov-cases"] += st["cases"]
            col.classes["cov-nontrivial-cases"] += st["nontrivial"]
            for k, v in st.get("classes", {}).items():
                col.classes[k] += v
            for case in st.get("samples", []):
                col.samples.append((len(canonical(case)), case))
            for i in range(st["nontrivial"]):
                col.nontrivial.add("cov%d/%d" % (shard, i))
        else:
            col.classes["cov-campaign-without-statistics"] += 1
        vpath = os.path.join(tmp, "violation.json")
        if os.path.exists(vpath):
            with open(vpath) as f:
                doc = json.load(f)
            case = doc["case"]
            try:
                clause.run(case)
            except Violation as v:
                col.failure = (case, v.message, v.details)
                col.shrink_truncated = True
                return
            col.classes["cov-report-not-reproduced"] += 1
    finally:
        shutil.rmtree(tmp, ignore_errors=True)


def _run_enumeration(clause, col, tier, shard, nshards):
    for case in clause.enumerate(tier, shard, nshards):
        try:
            outcome = clause.run(case)
        except Violation as v:
            col.failure = (case, v.message, v.details)
            return
        col.record(case, outcome)


def _run_hypothesis(pid, clause, col, tier, shard, seed, examples):
    import hypothesis
    from hypothesis import given, settings, HealthCheck, Phase, Verbosity

    max_shrink = clause.max_shrink_s[tier]
    n = examples if examples else clause.examples[tier]

    class _StopShrinking(Exception):
        pass

    def body(case):
        if col.harness is not None:
            # the harness failed (or the watchdog fired) on an earlier case:
            # no verdict will come from this task, do not run anything more
            return
        if col.failure is not None:
            # shrinking phase
            if col.shrink_started is None:
                col.shrink_started = time.time()
            if time.time() - col.shrink_started > max_shrink:
                col.shrink_truncated = True
                return
        try:
            outcome = clause.run(case)
        except Violation as v:
            col.failure = (case, v.message, v.details)
            col.fail_count += 1
            raise
        except HarnessError:
            col.harness = traceback.format_exc()
            raise
        except (KeyboardInterrupt, SystemExit):
            raise
        except BaseException:
            if type(sys.exc_info()[1]).__module__.startswith("hypothesis"):
                raise
            col.harness = traceback.format_exc()
            raise
        if col.failure is None:
            col.record(case, outcome)

    test = given(clause.strategy(tier))(body)
    test = settings(
        max_examples=n, database=None, deadline=None, derandomize=False,
        report_multiple_bugs=False, verbosity=Verbosity.quiet,
        phases=(Phase.generate, Phase.shrink),
        suppress_health_check=list(HealthCheck))(test)
    test = hypothesis.seed(_seed_for(pid, clause.name, shard, seed))(test)
    try:
        test()
    except Violation:
        pass
    except BaseException:
        if col.failure is None and col.harness is None:
            col.harness = traceback.format_exc()


def replay_file(mod, path):
    """Re-run check(case) of a saved case without Hypothesis.
    Returns None if it passes, else (message, details)."""
    with open(path) as f:
        doc = json.load(f)
    if doc.get("kind") == "import":
        err = probe_imports(mod)
        return None if err is None else ("import of %s fails" % err[0],
                                         {"traceback": err[1]})
    clause = [c for c in mod.CLAUSES if c.name == doc["clause"]]
    if not clause:
        raise HarnessError("replay names unknown clause %r" % doc["clause"])
    clause[0].property_id = mod.PROPERTY_ID
    try:
        clause[0].run(doc["case"])
    except Violation as v:
        return (v.message, v.details)
    return None


def write_replay(pid, clause, case, message, details):
    d = os.path.join(HERE, "replays", pid)
    os.makedirs(d, exist_ok=True)
    doc = {"property": pid, "clause": clause, "case": case,
           "message": message, "details": details}
    path = os.path.join(d, "%s-%s.json" % (clause, case_hash(case)))
    with open(path, "w") as f:
        json.dump(doc, f, indent=1, sort_keys=True, default=repr)
    return path


def load_findings(pid):
    path = os.path.join(HERE, "known_findings.json")
    if not os.path.exists(path):
        return []
    with open(path) as f:
        doc = json.load(f)
    return [k for k in doc.get("known", []) if k["property"] == pid]


def write_evidence(pid, doc):
    path = os.path.join(HERE, "evidence", pid + ".json")
    os.makedirs(os.path.dirname(path), exist_ok=True)
    try:
        import jsonschema
        schema_path = "/root/.vp/EVIDENCE.schema.json"
        if not os.path.exists(schema_path):
            schema_path = os.path.join(HERE, "tools", "EVIDENCE.schema.json")
        with open(schema_path) as f:
            schema = json.load(f)
        jsonschema.validate(json.loads(json.dumps(doc, default=repr)), schema)
    except ImportError:
        cov = doc["coverage"]
        for k in ("evaluations", "distinct_nontrivial", "rule", "samples"):
            assert k in cov
    tmp = path + ".tmp%d" % os.getpid()
    with open(tmp, "w") as f:
        json.dump(doc, f, indent=1, sort_keys=True, default=repr)
    os.replace(tmp, path)
    return path


def main(argv=None):
    ap = argparse.ArgumentParser()
    ap.add_argument("pid")
    ap.add_argument("--tier", default=os.environ.get("VERIF_TIER", "quick"),
                    choices=["quick", "thorough"])
    ap.add_argument("--replay")
    ap.add_argument("--clause", action="append")
    ap.add_argument("--examples", type=int)
    ap.add_argument("--shards", type=int)
    ap.add_argument("--jobs", type=int, default=int(
        os.environ.get("VERIF_JOBS", "16")))
    ap.add_argument("--engine", choices=["cov", "both"], default=None,
                    help="cov: only the coverage-guided campaigns "
                         "(vf/covfuzz.py); both: them and the Hypothesis "
                         "shards; default: the Hypothesis shards only "
                         "(measured: the coverage-guided campaigns add no "
                         "detections here, see DESIGN.md 0.2)")
    ap.add_argument("--no-evidence", action="store_true")
    ap.add_argument("--no-regressions", action="store_true",
                    help="sensitivity testing: skip the saved regression "
                         "cases so only generated search can catch a break")
    args = ap.parse_args(argv)
    pid = args.pid.upper()
    seed = int(os.environ.get("VERIF_SEED", "1") or 1)
    t0 = time.time()

    repo = os.environ.get("RIG_REPO", "/repo")
    sys.path.insert(0, repo)
    try:
        mod = load_property(pid)
    except Exception:
        traceback.print_exc()
        print("harness error: cannot load property module for %s" % pid)
        return 2

    # --- the code under test must import from the working tree
    err = probe_imports(mod)
    if err is not None:
        d = os.path.join(HERE, "replays", pid)
        os.makedirs(d, exist_ok=True)
        path = os.path.join(d, "import.json")
        with open(path, "w") as f:
            json.dump({"property": pid, "kind": "import", "module": err[0],
                       "traceback": err[1]}, f, indent=1)
        print(err[1])
        print("VIOLATION property=%s replay=%s" % (pid, path))
        return 1
    import rig
    rig_path = os.path.dirname(os.path.abspath(rig.__file__))
    if not rig_path.startswith(os.path.abspath(repo)):
        print("harness error: rig imported from %s, not from %s"
              % (rig_path, repo))
        return 2

    try:
        if args.replay:
            res = replay_file(mod, args.replay)
            if res is None:
                print("replay passes: %s" % args.replay)
                return 0
            print(res[0])
            if res[1]:
                print(json.dumps(res[1], indent=1, default=repr)[:6000])
            print("VIOLATION property=%s replay=%s"
                  % (pid, os.path.abspath(args.replay)))
            return 1
        return run_checks(mod, pid, args, seed, t0)
    except HarnessError:
        traceback.print_exc()
        return 2
    except Exception:
        traceback.print_exc()
        print("harness error")
        return 2


def run_checks(mod, pid, args, seed, t0):
    tier = args.tier
    violations = []
    known_lines = []

    # --- known findings: replay each listed case; report, do not fail
    findings = load_findings(pid)
    for k in findings:
        path = os.path.join(HERE, k["case_file"])
        res = replay_file(mod, path)
        if res is not None:
            known_lines.append("KNOWN-FINDING: property=%s %s"
                               % (pid, k["what"]))
        else:
            print("note: listed finding %s no longer reproduces"
                  % k.get("id", k["case_file"]))

    # --- regression tier: saved cases of fixed defects and caught mutants
    regdir = os.path.join(HERE, "regressions", pid)
    nreg = 0
    if os.path.isdir(regdir) and not args.no_regressions:
        for name in sorted(os.listdir(regdir)):
            if not name.endswith(".json"):
                continue
            path = os.path.join(regdir, name)
            nreg += 1
            res = replay_file(mod, path)
            if res is not None:
                print("regression case fails: %s: %s" % (name, res[0]))
                violations.append(path)

    # --- generated search
    clauses = [(i, c) for i, c in enumerate(mod.CLAUSES)
               if not args.clause or c.name in args.clause]
    tasks = []
    for i, c in clauses:
        if c.fuzz is not None and not c.fuzz["runs"].get(tier, 0):
            continue
        if tier not in c.examples and c.enumerate is None and \
                c.fuzz is None:
            continue
        if c.fuzz is None and c.examples.get(tier, 1) == 0:
            continue
        nshards = args.shards or c.shards[tier]
        if args.engine != "cov":
            for s in range(nshards):
                tasks.append((pid, i, s, nshards, tier, seed, args.examples))
        if args.engine in ("cov", "both"):
            if c.strategy is not None and c.fuzz is None and \
                    c.enumerate is None and not c.isolate and \
                    c.cov is not False and cov_runs(c, tier, args.examples):
                ncov = args.shards or (c.cov or {}).get("shards", 2) \
                    if isinstance(c.cov, dict) else (args.shards or 2)
                for s in range(ncov):
                    tasks.append((pid, i, s, ncov, tier, seed, args.examples,
                                  "cov"))
    results = []
    if violations:
        tasks = []
    if tasks:
        jobs = max(1, min(args.jobs, len(tasks)))
        if jobs == 1:
            results = [run_task(t) for t in tasks]
        else:
            ctx = multiprocessing.get_context("fork")
            with ctx.Pool(jobs, maxtasksperchild=1) as pool:
                results = pool.map(run_task, tasks, chunksize=1)

    harness = [r for r in results if r["harness"]]
    per_clause = collections.OrderedDict()
    clause_failures = collections.OrderedDict()
    for r in results:
        pc = per_clause.setdefault(r["clause"], {
            "evaluations": 0, "nontrivial": set(), "classes":
            collections.Counter(), "samples": [], "documented": 0,
            "excluded": 0, "shards": 0})
        pc["evaluations"] += r["evaluations"]
        pc["nontrivial"].update(r["nontrivial"])
        pc["classes"].update(r["classes"])
        pc["documented"] += r["documented"]
        pc["excluded"] += r["excluded"]
        pc["shards"] += 1
        if len(pc["samples"]) < 3:
            pc["samples"].extend(r["samples"][:3 - len(pc["samples"])])
        if r["failure"] is not None:
            case, message, details = r["failure"]
            key = (details or {}).get("finding_key") \
                if isinstance(details, dict) else None
            listed = [k for k in findings if key and k.get("key") == key]
            if listed:
                line = "KNOWN-FINDING: property=%s %s" % (pid,
                                                          listed[0]["what"])
                if line not in known_lines:
                    known_lines.append(line)
                continue
            size = len(canonical(case))
            best = clause_failures.get(r["clause"])
            if best is None or size < best[0]:
                clause_failures[r["clause"]] = (size, r)

    for name, (size, r) in clause_failures.items():
        case, message, details = r["failure"]
        path = write_replay(pid, name, case, message, details)
        print("clause %s: %s" % (name, message))
        if details:
            print(json.dumps(details, indent=1, default=repr)[:3000])
        if r["shrink_truncated"]:
            print("(shrinking stopped at its time cap; the case may not "
                  "be minimal)")
        violations.append(path)

    for line in known_lines:
        print(line)

    # --- evidence
    clause_by_name = dict((c.name, c) for c in mod.CLAUSES)
    total_eval = sum(pc["evaluations"] for pc in per_clause.values())
    total_nt = sum(len(pc["nontrivial"]) for pc in per_clause.values())
    samples = []
    cov_clauses = {}
    for name, pc in per_clause.items():
        c = clause_by_name[name]
        for s in pc["samples"][:2]:
            samples.append({"clause": name, "case": s})
        cov_clauses[name] = {
            "evaluations": pc["evaluations"],
            "distinct_nontrivial": len(pc["nontrivial"]),
            "rule": c.rule,
            "classes": dict(sorted(pc["classes"].items())),
            "documented_failures": pc["documented"],
            "excluded": pc["excluded"],
            "shards": pc["shards"],
            "engine": "atheris" if c.fuzz else
            ("enumeration" if c.enumerate else
             ("hypothesis + atheris over the same strategy"
              if pc["classes"].get("cov-executions") else "hypothesis")),
            "exhaustive": bool(c.exhaustive and c.enumerate),
        }
    rule = getattr(mod, "RULE", None) or "; ".join(
        "%s: %s" % (c.name, c.rule) for _, c in clauses)
    evidence = {
        "property_id": pid,
        "tier": tier,
        "seed": seed,
        "level": mod.LEVEL,
        "coverage": {
            "evaluations": total_eval,
            "distinct_nontrivial": total_nt,
            "rule": rule,
            "samples": samples,
            "clauses": cov_clauses,
            "regressions_replayed": nreg,
            "known_findings_reported": len(known_lines),
            "exhaustive": bool(clauses) and all(
                c.exhaustive and c.enumerate for _, c in clauses),
            "rig_tree": os.environ.get("RIG_REPO", "/repo"),
        },
        "assumptions": list(getattr(mod, "ASSUMPTIONS", [])),
        "wall_s": round(time.time() - t0, 2),
        "violations": len(violations),
    }
    if not args.no_evidence and not args.clause:
        if total_eval > 0 or violations:
            try:
                write_evidence(pid, evidence)
            except Exception:
                traceback.print_exc()
                print("harness error: evidence not valid")
                if not violations:
                    return 2

    for name, cc in cov_clauses.items():
        print("  %-28s eval=%-8d nontrivial=%-8d documented=%-6d %s"
              % (name, cc["evaluations"], cc["distinct_nontrivial"],
                 cc["documented_failures"],
                 " ".join("%s=%d" % kv for kv in
                          list(cc["classes"].items())[:14])))
    print("%s tier=%s seed=%d evaluations=%d nontrivial=%d wall=%.1fs"
          % (pid, tier, seed, total_eval, total_nt, time.time() - t0))

    if violations:
        for path in violations:
            print("VIOLATION property=%s replay=%s" % (pid, path))
        return 1
    if harness:
        for r in harness:
            print("harness error in clause %s:\n%s" % (r["clause"],
                                                        r["harness"]))
        return 2
    return 0


if __name__ == "__main__":
    sys.exit(main())
