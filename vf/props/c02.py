"""C02 Every placer returns a feasible placement or fails as documented."""
import random
import signal

from hypothesis import strategies as st

from vf.core import Clause, HarnessError, Violation, require, sut
from vf.gen import pr
from vf.gen import problems as gp

PROPERTY_ID = "C02"
LEVEL = "exploration"
IMPORTS = ["rig.place_and_route", "rig.place_and_route.place.sa",
           "rig.place_and_route.place.hilbert",
           "rig.place_and_route.place.rcm",
           "rig.place_and_route.place.breadth_first",
           "rig.place_and_route.place.sequential",
           "rig.place_and_route.place.rand",
           "rig.place_and_route.place.sa.python_kernel",
           "rig.place_and_route.place.sa.c_kernel"]
ASSUMPTIONS = [
    "constraint sets are consistent: at most one location constraint per "
    "(transitively closed) same-chip group; reservations pairwise disjoint, "
    "inside every affected chip's range and on live chips",
    "vertices only ask for resources the machine defines; quantities are "
    "small non-negative integers",
    "random generators are seeded per case (random.Random(seed) passed to "
    "the SA and random placers, random.seed(seed) for module-level use)",
    "'always terminates' is only watched by a 120 s alarm per call; a hit "
    "makes the run inconclusive (exit 2), never a violation",
    "rig_c_sa (the compiled annealing kernel, installed separately) is part "
    "of the trusted base; rig's own c_kernel.py wrapper is under test",
]

PLACERS = ["sa-python", "sa-c", "hilbert", "rcm", "breadth-first",
           "sequential", "rand"]


class Watchdog(HarnessError):
    pass


def _alarm(signum, frame):
    raise Watchdog("placer did not return within the watchdog time")


def options_strategy(placer, case):
    names = [v["name"] for v in case["vertices"]]
    m = case["machine"]
    chips = pr.live_chips(m)
    if placer in ("sa-python", "sa-c"):
        return st.fixed_dictionaries({
            "effort": st.sampled_from([0.0, 0.1, 0.1, 1.0, 1.0, 3.0]),
            # the documented progress callback: absent, observing, or asking
            # the annealer to stop after n calls
            "callback": st.sampled_from([None, None, "observe", "stop1",
                                         "stop3"])})
    if placer == "hilbert":
        return st.fixed_dictionaries({"breadth_first": st.sampled_from(
            [None, True, False])})
    if placer in ("sequential", "breadth-first"):
        extra = [list(c) for c in m["dead_chips"]] + \
            [[m["w"], 0], [0, m["h"] + 3], [-1, -1]]
        chip_order = st.one_of(
            st.none(),
            st.tuples(st.permutations([list(c) for c in chips]),
                      st.lists(st.sampled_from(extra), max_size=3,
                               unique_by=tuple),
                      st.integers(0, 1000)).map(_mix))
        opts = {"chip_order": chip_order}
        if placer == "sequential":
            opts["vertex_order"] = st.one_of(
                st.none(), st.permutations(names)) if names else st.none()
        return st.fixed_dictionaries(opts)
    return st.just({})


def _mix(t):
    chips, extra, k = t
    out = list(chips)
    for i, e in enumerate(extra):
        out.insert((k + 7 * i) % (len(out) + 1), e)
    return out


@st.composite
def packed_problem(draw, tier):
    """Few chips, two or three resources, many vertices of unequal size that
    each name only the resources they use, placed feasibly by construction
    and filling the machine to 60-100 %: every annealing swap has to move
    several vertices out of the way and the way back is tight."""
    w, h = draw(st.sampled_from([(2, 1), (1, 2), (3, 1), (2, 2), (1, 4),
                                 (3, 2)]))
    rnames = draw(st.sampled_from([["Cores", "SDRAM"], ["Cores", "U"],
                                   ["Cores", "SDRAM", "SRAM"],
                                   ["SDRAM", "U", "V"]]))
    cap = dict((r, draw(st.integers(4, 12))) for r in rnames)
    chips = [(x, y) for x in range(w) for y in range(h)]
    vertices = []
    for c in chips:
        room = dict(cap)
        fill = draw(st.sampled_from([0.6, 0.8, 1.0, 1.0]))
        for _ in range(draw(st.integers(1, 6))):
            needs = {}
            for r in draw(st.lists(st.sampled_from(rnames), min_size=1,
                                   max_size=len(rnames), unique=True)):
                top = room[r] - int(cap[r] * (1 - fill))
                if top >= 1:
                    needs[r] = draw(st.integers(1, max(1, min(top, 6))))
                    room[r] -= needs[r]
            if needs:
                vertices.append({"name": "v%d" % len(vertices),
                                 "needs": needs})
    names = [v["name"] for v in vertices]
    vertices = draw(st.permutations(vertices)) if vertices else []
    return {"machine": {"w": w, "h": h, "mesh": draw(st.booleans()),
                        "resources": cap, "exceptions": [],
                        "dead_chips": [], "dead_links": []},
            "vertices": list(vertices),
            "nets": draw(gp.nets_strategy(names, max_nets=8, max_fan=4,
                                          min_nets=1)) if names else [],
            "constraints": [], "vkind": draw(st.sampled_from(
                pr.VERTEX_KINDS)), "subcls": False,
            "seed": draw(st.integers(0, 10 ** 6)), "packed": True}


def make_strategy(placer, premise):
    @st.composite
    def strat(draw, tier):
        small = placer == "sa-python"
        if placer in ("sa-python", "sa-c") and not premise and \
                draw(st.integers(0, 2)) == 0:
            case = draw(packed_problem(tier))
            case["placer"] = placer
            case["options"] = draw(options_strategy(placer, case))
            case["options"]["effort"] = draw(st.sampled_from([0.1, 0.5, 1.0]))
            return case
        case = draw(gp.problem(tier, premise=premise,
                               max_v=(10 if tier == "quick" else 20)
                               if small else None,
                               max_w=(5 if tier == "quick" else 8)
                               if small else None))
        case["placer"] = placer
        case["options"] = draw(options_strategy(placer, case))
        # a machine description may still carry the resource figures of a
        # chip that has since died (only without global reservations, which
        # index the machine with every exception - observation O3)
        m = case["machine"]
        # lopsided chips: none of one resource, plenty of the others (a chip
        # whose cores are all taken but whose memory is free), possibly with
        # the exception's keys in another order than the machine's
        live = pr.live_chips(m)
        pinned = set(tuple(c["chip"]) for c in case["constraints"]
                     if c["type"] == "loc")
        if len(m["resources"]) >= 2 and not premise and \
                draw(st.integers(0, 2)) == 0:
            names = sorted(m["resources"])
            for c in draw(st.lists(st.sampled_from(live), max_size=3,
                                   unique=True)):
                if c in pinned or any((x, y) == c
                                      for x, y, r in m["exceptions"]):
                    continue
                zero = draw(st.sampled_from(names))
                m["exceptions"].append(
                    [c[0], c[1], dict((r, 0 if r == zero else
                                       m["resources"][r])
                                      for r in names)])
            m["exceptions_reversed"] = draw(st.booleans())
        glob = any(c["type"] == "reserve" and c["loc"] is None
                   for c in case["constraints"])
        if m["dead_chips"] and not glob and draw(st.integers(0, 2)) == 0:
            d = draw(st.sampled_from(m["dead_chips"]))
            if not any((x, y) == tuple(d) for x, y, r in m["exceptions"]):
                m["exceptions"].append(
                    [d[0], d[1], dict((r, v + 2)
                                      for r, v in m["resources"].items())])
        return case
    return lambda tier: strat(tier)


def call_placer(case, vr, nets, machine, cons, vobj):
    placer = case["placer"]
    opts = case["options"]
    rng = random.Random(case["seed"])
    random.seed(case["seed"])
    if placer in ("sa-python", "sa-c"):
        from rig.place_and_route.place.sa import place
        if placer == "sa-python":
            from rig.place_and_route.place.sa.python_kernel import \
                PythonKernel as K
            kw = {"kernel_kwargs": {"no_warn": True}}
        else:
            from rig.place_and_route.place.sa.c_kernel import CKernel as K
            kw = {}
        cb = opts.get("callback")
        if cb:
            calls = []
            expected = set(vr)

            def on_change(iteration, placements, cost, r_accept, temperature,
                          distance_limit):
                calls.append(iteration)
                require(set(placements) == expected, "the placement handed "
                        "to on_temperature_change does not cover exactly the "
                        "vertices", {"calls": len(calls)})
                if cb.startswith("stop") and len(calls) >= int(cb[4:]):
                    return False
            kw["on_temperature_change"] = on_change
        return place(vr, nets, machine, cons, effort=opts["effort"],
                     random=rng, kernel=K, **kw)
    if placer == "hilbert":
        from rig.place_and_route.place.hilbert import place
        if opts["breadth_first"] is None:
            return place(vr, nets, machine, cons)
        return place(vr, nets, machine, cons,
                     breadth_first=opts["breadth_first"])
    if placer == "rcm":
        from rig.place_and_route.place.rcm import place
        return place(vr, nets, machine, cons)
    if placer == "breadth-first":
        from rig.place_and_route.place.breadth_first import place
        co = opts["chip_order"]
        if co is None:
            return place(vr, nets, machine, cons)
        return place(vr, nets, machine, cons,
                     chip_order=[tuple(c) for c in co])
    if placer == "sequential":
        from rig.place_and_route.place.sequential import place
        kw = {}
        if opts["chip_order"] is not None:
            kw["chip_order"] = iter([tuple(c) for c in opts["chip_order"]])
        if opts.get("vertex_order") is not None:
            kw["vertex_order"] = [vobj[n] for n in opts["vertex_order"]]
        return place(vr, nets, machine, cons, **kw)
    if placer == "rand":
        from rig.place_and_route.place.rand import place
        return place(vr, nets, machine, cons, random=rng)
    raise HarnessError("unknown placer %r" % placer)


def run_placer(case):
    """-> ("placed", {name: chip}) | ("failed", exception)"""
    from rig.place_and_route.exceptions import (InsufficientResourceError,
                                                InvalidConstraintError)
    vr, nets, machine, cons, vobj = gp.build_problem(case)
    back = dict((id(o) if case["vkind"] in ("obj", "idobj") else o, n)
                for n, o in vobj.items())
    old = signal.signal(signal.SIGALRM, _alarm)
    signal.alarm(120)
    dbg = gp.debug_logging(case.get("debug_log"))
    dbg.__enter__()
    try:
        try:
            if case.get("seed", 0) % 4 == 0:
                # the very same objects were placed once before (a program
                # that tries one placer after another, or places again after
                # changing something else); this call is the one judged
                try:
                    with sut("place[%s], first of two calls with the same "
                             "objects" % case["placer"],
                             (InsufficientResourceError,
                              InvalidConstraintError)):
                        first = call_placer(case, vr, nets, machine, cons,
                                            vobj)
                        if isinstance(first, dict):
                            first.clear()     # the caller's to do with as
                            #                   it likes
                except (InsufficientResourceError, InvalidConstraintError):
                    pass
            with sut("place[%s]" % case["placer"],
                     (InsufficientResourceError, InvalidConstraintError)):
                out = call_placer(case, vr, nets, machine, cons, vobj)
        except (InsufficientResourceError, InvalidConstraintError) as e:
            return "failed", e
    finally:
        dbg.__exit__(None, None, None)
        signal.alarm(0)
        signal.signal(signal.SIGALRM, old)
    require(isinstance(out, dict), "placer does not return a dict",
            {"type": type(out).__name__})
    by_name = {}
    for k, c in out.items():
        n = back.get(id(k) if case["vkind"] in ("obj", "idobj") else k)
        by_name[n if n is not None else ("?", repr(k))] = \
            tuple(c) if isinstance(c, (tuple, list)) else c
    return "placed", by_name


def _nontrivial(case):
    m = case["machine"]
    return (len(case["vertices"]) >= 2 and len(pr.live_chips(m)) >= 2 and
            (bool(case["constraints"]) or bool(m["exceptions"]) or
             bool(case.get("packed"))))


def check_sound(case):
    kind, out = run_placer(case)
    cls = [case["placer"]] + (["packed"] if case.get("packed") else []) + \
        (["subclassed-constraints"] if case.get("subcls") and
         case["constraints"] else [])
    bad = any(c.get("bad") for c in case["constraints"])
    if kind == "failed":
        return {"documented": True, "nontrivial": False,
                "classes": cls + [type(out).__name__]}
    require(not bad, "placer returns a placement although a location "
            "constraint names a chip that is dead or outside the machine",
            {"constraints": [c for c in case["constraints"]
                             if c.get("bad")]})
    problem = gp.placement_problems(case, out)
    if problem is not None:
        raise Violation("%s placer returned an infeasible placement: %s"
                        % (case["placer"], problem["why"]),
                        {"problem": problem,
                         "placement": sorted((n, list(c))
                                             for n, c in out.items()
                                             if isinstance(c, tuple))})
    return {"nontrivial": _nontrivial(case), "classes": cls + ["placed"]}


def check_complete(case):
    kind, out = run_placer(case)
    if kind == "failed":
        raise Violation(
            "%s placer fails with %s although every vertex needs at most one "
            "unit of a single resource, there are no same-chip groups, "
            "location-constrained vertices fit and the total free capacity "
            "suffices" % (case["placer"], type(out).__name__),
            {"error": str(out)})
    problem = gp.placement_problems(case, out)
    if problem is not None:
        raise Violation("%s placer returned an infeasible placement: %s"
                        % (case["placer"], problem["why"]),
                        {"problem": problem})
    m = case["machine"]
    chips = pr.live_chips(m)
    r = sorted(m["resources"])[0]
    reserved = 0
    for c in case["constraints"]:
        if c["type"] == "reserve":
            reserved += (c["stop"] - c["start"]) * (
                len(chips) if c["loc"] is None else 1)
    total = sum(pr.chip_capacity(m, c)[r] for c in chips) - reserved
    need = sum(v["needs"].get(r, 0) for v in case["vertices"])
    return {"nontrivial": total > 0 and 2 * need >= total and
            len(case["vertices"]) >= 2,
            "classes": [case["placer"]] +
                       (["full"] if need == total and total > 0 else [])}


def _examples(placer, kind):
    if placer == "sa-python":
        return {"quick": 400, "thorough": 4000}
    if placer == "sa-c":
        return {"quick": 1000, "thorough": 8000}
    return {"quick": 1500, "thorough": 10000}


@st.composite
def strat_scale(draw, tier):
    """Problems of the size real applications have: machines of hundreds to
    thousands of chips, or netlists of a few thousand vertices in long
    chains - inside the completeness premise, for the placers that are cheap
    enough to be run at that size."""
    placer = draw(st.sampled_from(["hilbert", "rcm", "breadth-first",
                                   "sequential", "rand"]))
    if draw(st.booleans()):
        w = draw(st.sampled_from([16, 24, 30, 32, 36, 40, 48, 64]))
        h = draw(st.sampled_from([16, 24, 30, 32, 36, 40, 48]))
        cores = draw(st.integers(1, 4))
        n = draw(st.integers(3, 30))
        kind = "large-machine"
    else:
        n = draw(st.sampled_from([500, 1000, 2000, 2500, 3000, 4000, 5000]))
        n += draw(st.integers(0, 400))
        cores = 18
        side = 2
        while side * side * cores < n + 20:
            side += 1
        w, h = side + draw(st.integers(0, 2)), side
        kind = "long-chain"
    names = ["v%d" % i for i in range(n)]
    if kind == "long-chain":
        nets = [{"source": names[i], "sinks": [names[i + 1]], "weight": 1}
                for i in range(n - 1)]
    else:
        nets = draw(gp.nets_strategy(names, max_nets=8, max_fan=4,
                                     min_nets=1))
    m = {"w": w, "h": h, "mesh": draw(st.booleans()),
         "resources": {"Cores": cores}, "exceptions": [], "dead_chips": [],
         "dead_links": []}
    return {"machine": m, "placer": placer, "kind": kind,
            "vertices": [{"name": v, "needs": {"Cores": 1}} for v in names],
            "nets": nets, "constraints": [], "vkind": "str",
            "seed": draw(st.integers(0, 1000)),
            "options": {"chip_order": None, "vertex_order": None,
                        "breadth_first": None}}


@st.composite
def strat_nochip(draw, tier):
    """A machine on which no chip works (all dead): with at least one vertex
    to place every placer fails as documented, with none it succeeds."""
    w, h = draw(st.integers(1, 3)), draw(st.integers(1, 3))
    n = draw(st.integers(0, 3))
    names = ["v%d" % i for i in range(n)]
    placer = draw(st.sampled_from(PLACERS))
    opts = {"chip_order": None, "vertex_order": None, "breadth_first": None,
            "effort": draw(st.sampled_from([0.0, 0.1])), "callback": None}
    return {"machine": {"w": w, "h": h, "mesh": True,
                        "resources": {"Cores": 2}, "exceptions": [],
                        "dead_chips": [[x, y] for x in range(w)
                                       for y in range(h)],
                        "dead_links": []},
            "placer": placer, "options": opts,
            "vertices": [{"name": v, "needs": {"Cores": draw(
                st.integers(0, 1))}} for v in names],
            "nets": draw(gp.nets_strategy(names, max_nets=2, max_fan=2,
                                          min_nets=0)) if n >= 2 else [],
            "constraints": [], "vkind": "str",
            "seed": draw(st.integers(0, 100))}


def check_nochip(case):
    from rig.place_and_route.exceptions import InsufficientResourceError
    kind, out = run_placer(case)
    if not case["vertices"]:
        require(kind == "placed" and out == {}, "placing nothing on a "
                "machine without working chips does not give an empty "
                "placement", {"outcome": kind})
    else:
        require(kind == "failed" and
                isinstance(out, InsufficientResourceError),
                "placing a vertex on a machine without working chips does "
                "not fail with InsufficientResourceError",
                {"outcome": kind, "result": repr(out)[:200]})
    return {"nontrivial": bool(case["vertices"]),
            "classes": [case["placer"]]}


def check_scale(case):
    out = check_complete(case)
    out["classes"] = [case["placer"], case["kind"]]
    out["nontrivial"] = True
    return out


CLAUSES = []
for _p in PLACERS:
    CLAUSES.append(Clause(
        "sound-" + _p, check_sound, strategy=make_strategy(_p, False),
        rule="generated problems (machines with dead chips and resource "
             "exceptions, 0-14/40 vertices incl. ones needing nothing, "
             "chained and duplicated same-chip groups, location constraints, "
             "global and per-chip reservations) for this placer with drawn "
             "options and RNG seed; non-trivial = >= 2 vertices, >= 2 live "
             "chips and a constraint or resource exception",
        examples=_examples(_p, "sound"),
        shards={"quick": 2, "thorough": 16}))
for _p in PLACERS:
    CLAUSES.append(Clause(
        "complete-" + _p, check_complete, strategy=make_strategy(_p, True),
        rule="problems inside the completeness premise (one resource, needs "
             "0/1, no same-chip groups, pinned vertices fit, total need <= "
             "total free capacity): the placer must succeed; non-trivial = "
             "total need >= half the free capacity",
        examples=_examples(_p, "complete"),
        shards={"quick": 2, "thorough": 16}))
CLAUSES.append(Clause(
    "scale", check_scale, strategy=strat_scale,
    rule="machines of 16-48 chips on a side with a few vertices, or chains "
         "of 400-3000 one-core vertices on a machine that just holds them, "
         "for the hilbert, rcm, breadth-first, sequential and random "
         "placers: the placer must succeed with a feasible placement; every "
         "case counts as non-trivial",
    examples={"quick": 60, "thorough": 600},
    shards={"quick": 4, "thorough": 16}))
CLAUSES.append(Clause(
    "no-working-chip", check_nochip, strategy=strat_nochip,
    rule="machines of 1-3 x 1-3 chips, all dead, 0-3 vertices, every placer: "
         "InsufficientResourceError (empty placement for no vertices); "
         "non-trivial = at least one vertex",
    examples={"quick": 100, "thorough": 1000},
    shards={"quick": 2, "thorough": 8}))
