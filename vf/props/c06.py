"""C06 SCP bursts complete each command exactly once despite loss/reordering.

Histories of bursts on one SCPConnection run over the fake network with a
drawn per-datagram fault plan and a virtual clock; the recorded trace is then
judged against the property's invariants.
"""
import struct

from hypothesis import strategies as st

from vf.core import Clause, Violation, require, sut
from vf.sim import net as simnet

PROPERTY_ID = "C06"
LEVEL = "fault_enumeration"
IMPORTS = ["rig.machine_control.scp_connection",
           "rig.machine_control.packets"]
ASSUMPTIONS = [
    "the network may lose requests and replies, delay replies by any drawn "
    "amount (so they overtake each other and arrive in later bursts), "
    "duplicate replies and substitute retryable or fatal return codes; it "
    "never duplicates or reorders requests by itself",
    "every reply carries the identity of the command it answers (arg1), so "
    "'the reply to that very command' is checkable",
    "the harness owns the clock: select() advances virtual time; a run that "
    "polls more often than 8 * (transmissions allowed) + plan length + 200 "
    "times is judged non-terminating",
    "stale replies stay shorter-lived than the 16-bit sequence space except "
    "in the dedicated wrap clause",
]

# every return code the documentation lists: two retryable, thirteen fatal
OK, RETRY_CODES = 0x80, [0x8d, 0x82]
FATAL_CODES = [0x84, 0x87, 0x81, 0x8e, 0x83, 0x85, 0x86, 0x88, 0x89, 0x8a,
               0x8b, 0x8c, 0x8f]


class Echo(object):
    """Answers every SCP request with an OK reply identifying the request."""

    def __init__(self, data_length=0):
        self.requests = []
        self.data_length = data_length

    def handle(self, data, dest):
        self.requests.append(data)
        cmd, seq, arg1 = struct.unpack_from("<2HI", data, 10)
        hdr = bytes([0, 0, 0x07, data[3], data[5], data[4], data[8], data[9],
                     data[6], data[7]])
        payload = bytes((arg1 + 3 * i) & 0xff
                        for i in range(self.data_length))
        return [hdr + struct.pack("<2H3I", OK, seq, arg1, len(self.requests),
                                  cmd) + payload]


class Plan(object):
    def __init__(self, entries, base_timeout):
        self.entries = entries
        self.base = base_timeout
        self.n = 0
        self.current = None
        self.used = []

    def request(self, net, sock, dest, data):
        self.current = self.entries[self.n] if self.n < len(self.entries) \
            else None
        self.n += 1
        if self.current is not None and self.current["req_lost"]:
            self.used.append("request-lost")
            return {"lost": True}
        return {"lost": False}

    def replies(self, net, sock, dest, data, replies):
        if self.current is None:
            return [(0.0, r) for r in replies]
        out = []
        for kind, mult, code in self.current["replies"]:
            r = bytearray(replies[0])
            if kind == "retry":
                r[10:12] = struct.pack("<H", RETRY_CODES[code % 2])
            elif kind == "fatal":
                r[10:12] = struct.pack("<H", FATAL_CODES[code % len(FATAL_CODES)])
            self.used.append(kind if mult < 1.0 or kind != "ok"
                             else "late-ok")
            out.append((mult * self.base, bytes(r)))
        if not self.current["replies"]:
            self.used.append("reply-lost")
        if len(self.current["replies"]) > 1:
            self.used.append("duplicate")
        return out


def plan_entry():
    delay = st.sampled_from([0.0, 0.0, 0.01, 0.3, 0.9, 0.999, 1.001, 1.3,
                             2.0, 2.6, 4.0, 7.5])
    ok = st.tuples(st.just("ok"), delay, st.just(0))
    retry = st.tuples(st.just("retry"), delay, st.integers(0, 1))
    fatal = st.tuples(st.just("fatal"), delay, st.integers(0, 12))
    reply = st.one_of(ok, ok, ok, ok, retry, st.one_of(ok, ok, ok, fatal))
    return st.one_of(
        st.just({"req_lost": False, "replies": [["ok", 0.0, 0]]}),
        st.fixed_dictionaries({
            "req_lost": st.sampled_from([False, False, False, True]),
            "replies": st.lists(reply, min_size=0, max_size=2)
            .map(lambda l: [list(t) for t in l])}))


@st.composite
def strat_history(draw, tier):
    big = tier == "thorough"
    bursts = []
    total = 0
    for _ in range(draw(st.integers(1, 4))):
        n = draw(st.one_of(st.integers(0, 6),
                           st.integers(0, 300 if big else 40)))
        single = n == 1 and draw(st.booleans())
        cmds = [draw(st.sampled_from([0.0, 0.0, 0.0, 0.25, 1.0, 3.0]))
                for _ in range(n)]
        # time the caller's callbacks take (virtual seconds spent outside
        # the connection's own waiting)
        slow = draw(st.integers(0, 3)) == 0
        cb_time = [draw(st.sampled_from([0.0, 0.0, 0.0, 0.4, 1.7, 3.5]))
                   if slow else 0.0 for _ in range(n)]
        bursts.append({"window": draw(st.integers(1, 16)), "cmds": cmds,
                       "single": single, "cb_time": cb_time,
                       # what the callbacks are: plain functions, or callable
                       # collections that are still empty (hence false) when
                       # the reply arrives
                       "cb_kind": draw(st.sampled_from(
                           ["function", "function", "collector"])),
                       # the commands' own payload (latin-1): bytes that
                       # mean something to string formatting included
                       "data": draw(st.sampled_from(
                           ["", "", "", "{", "}", "{0}{cmd_rc}", "%s%d%",
                            "\x00\xff{x", "plain payload"])),
                       # a later call may name another buffer size
                       "buffer": draw(st.sampled_from(
                           [None, None, None, 64, 128, 512, 1000]))})
        total += n
    plan = draw(st.lists(plan_entry(), max_size=min(3 * total + 2, 120)))
    # the buffer size the machine advertises bounds the data of a reply;
    # sizes just below a power of two minus the headers matter for the
    # length handed to recv()
    buf = draw(st.sampled_from([256, 256, 128, 24, 25, 40, 103, 104, 105,
                                230, 231, 232, 233, 486, 487, 488, 489, 1000,
                                1024]))
    return {"n_tries": draw(st.integers(1, 5)),
            "timeout": draw(st.sampled_from([0.5, 0.5, 0.1, 2.0])),
            "bursts": bursts, "plan": plan, "buffer": buf,
            "reply_data": draw(st.sampled_from(["none", "short", "max",
                                                "max"]))}


def run_history(case, wrap=False):
    from rig.machine_control import scp_connection as sc
    events = []          # ("send"|"recv"|"callback"|"burst"|"end", ...)
    h = simnet.Harness()
    plan = Plan(case["plan"], case["timeout"])
    h.net.plan = plan
    case_buf = case.get("buffer", 256)
    echo = Echo(0)
    h.net.attach("spinn", 17893, echo)

    # unified event log
    real_transmit = h.net.transmit

    def transmit(sock, dest, data):
        events.append(("send", h.clock.now, data))
        real_transmit(sock, dest, data)
    h.net.transmit = transmit

    class RecvLog(list):
        def append(self, item):
            events.append(("recv", item[0], item[2]))
    h.net.delivered = RecvLog()

    outcomes = []
    budget = 0
    with h:
        with sut("SCPConnection()"):
            conn = sc.SCPConnection("spinn", n_tries=case["n_tries"],
                                    timeout=case["timeout"])
        for b, burst in enumerate(case["bursts"]):
            ids = [b * 100000 + i for i in range(len(burst["cmds"]))]
            buf = burst.get("buffer") or case_buf
            echo.data_length = {"none": 0, "short": min(5, buf), "max": buf}[
                case.get("reply_data", "none")]
            durations = dict(zip(ids, burst.get("cb_time") or []))
            budget += len(ids) * case["n_tries"]
            h.net.select_limit = 8 * budget + len(case["plan"]) + 200 + \
                h.net.select_calls
            events.append(("burst", h.clock.now, b))

            def make_cb(cid, kind=burst.get("cb_kind", "function")):
                def cb(packet):
                    events.append(("callback", h.clock.now, cid,
                                   bytes(packet)))
                    h.clock.now += durations.get(cid, 0.0)
                if kind == "collector":
                    class Collector(list):
                        def __call__(self, packet):
                            cb(packet)
                            self.append(bytes(packet))
                    return Collector()
                return cb
            payload = burst.get("data", "").encode("latin-1")
            calls = [sc.scpcall(1, 2, 3, 5, cid, 0, 0, payload, make_cb(cid),
                                extra)
                     for cid, extra in zip(ids, burst["cmds"])]
            try:
                with sut("send_scp_burst", (sc.SCPError, simnet.StepLimit)):
                    if burst["single"]:
                        pkt = conn.send_scp(buf, 1, 2, 3, 5, ids[0], 0, 0,
                                            payload, 3, burst["cmds"][0])
                        events.append(("callback", h.clock.now, ids[0],
                                       bytes(pkt.bytestring)))
                    else:
                        conn.send_scp_burst(buf, burst["window"], calls)
                outcomes.append(("completed", None))
            except sc.TimeoutError as e:
                outcomes.append(("timeout", e))
            except sc.FatalReturnCodeError as e:
                outcomes.append(("fatal", e))
            except simnet.StepLimit as e:
                raise Violation("send_scp_burst does not terminate: %s" % e,
                                {"burst": b})
            events.append(("end", h.clock.now, b))
    return events, outcomes, plan


def _parse(data):
    cmd, seq, arg1 = struct.unpack_from("<2HI", data, 10)
    return cmd, seq, arg1


def judge(case, events, outcomes):
    n_tries = case["n_tries"]
    base = case["timeout"]
    sends = {}              # cid -> [(time, bytes)]
    answered = {}           # cid -> time an OK reply was received
    reply_of = {}           # cid -> the datagram of that reply
    callbacks = {}          # cid -> count
    cur = None
    fatal_seen = False
    burst_cids = {}
    classes = set()
    for ev in events:
        kind = ev[0]
        if kind == "burst":
            cur = ev[2]
            fatal_seen = False
            outstanding = set()
            burst_cids[cur] = set()
            window = case["bursts"][cur]["window"]
            if case["bursts"][cur]["single"]:
                window = 1
        elif kind == "send":
            cmd, seq, cid = _parse(ev[2])
            b = cid // 100000
            require(b == cur, "a command of another burst is transmitted",
                    {"command": cid, "burst": cur})
            extra = case["bursts"][b]["cmds"][cid % 100000]
            tx = sends.setdefault(cid, [])
            if tx:
                classes.add("retransmission")
                require(ev[2] == tx[0][1], "a retransmission differs from "
                        "the original datagram", {"command": cid})
                require(ev[1] >= tx[-1][0] + base + extra - 1e-9,
                        "a command is retransmitted before its timeout has "
                        "elapsed", {"command": cid, "previous": tx[-1][0],
                                    "now": ev[1], "timeout": base + extra})
                require(len(tx) < n_tries, "a command is transmitted more "
                        "often than the configured number of tries",
                        {"command": cid, "n_tries": n_tries})
                require(cid not in answered, "a command is retransmitted "
                        "after its reply was received", {"command": cid})
            else:
                outstanding.add(cid)
                burst_cids[cur].add(cid)
                require(len(outstanding) <= window, "more commands are "
                        "unanswered than the window size",
                        {"window": window, "outstanding": len(outstanding)})
            tx.append((ev[1], ev[2]))
        elif kind == "recv":
            rc, seq, cid = _parse(ev[2])
            if rc == OK:
                if cid in outstanding:
                    outstanding.discard(cid)
                    answered[cid] = ev[1]
                    reply_of[cid] = ev[2]
                elif cid // 100000 != cur:
                    classes.add("stale-reply-in-later-burst")
                else:
                    classes.add("duplicate-or-late-reply")
            elif rc in RETRY_CODES:
                classes.add("retryable-code")
            else:
                fatal_seen = True
                classes.add("fatal-code")
        elif kind == "callback":
            cid = ev[2]
            callbacks[cid] = callbacks.get(cid, 0) + 1
            require(callbacks[cid] == 1, "a command's callback is invoked "
                    "more than once", {"command": cid})
            require(cid // 100000 == cur, "a callback of an earlier burst "
                    "runs during a later burst", {"command": cid})
            rc, seq, rid = _parse(ev[3])
            require(rc == OK and rid == cid, "a callback is invoked with a "
                    "reply that does not answer its own command",
                    {"command": cid, "reply_for": rid, "rc": rc})
            require(cid in answered, "a callback runs before the reply to "
                    "its command was received", {"command": cid})
            require(ev[3] == reply_of[cid], "a callback is not given the "
                    "whole reply datagram of its command",
                    {"command": cid, "buffer_size": case.get("buffer", 256),
                     "datagram_length": len(reply_of[cid]),
                     "given_length": len(ev[3])})
            if len(reply_of[cid]) > 28:
                classes.add("reply-with-data")
        elif kind == "end":
            outcome, exc = outcomes[ev[2]]
            cids = [ev[2] * 100000 + i
                    for i in range(len(case["bursts"][ev[2]]["cmds"]))]
            classes.add(outcome)
            if outcome == "completed":
                require(not fatal_seen, "a fatal return code was received "
                        "but the burst completed normally", {"burst": ev[2]})
                missing = [c for c in cids if callbacks.get(c, 0) != 1]
                require(not missing, "the burst returned although a "
                        "command's callback was never invoked",
                        {"burst": ev[2], "commands": missing[:5]})
            elif outcome == "fatal":
                require(fatal_seen, "FatalReturnCodeError although no fatal "
                        "return code was received", {"burst": ev[2]})
            else:
                require(not fatal_seen, "a fatal return code was received "
                        "but TimeoutError was raised", {"burst": ev[2]})
                pkt = exc.packet
                require(pkt is not None, "TimeoutError names no command", {})
                require(hasattr(pkt, "arg1") and hasattr(pkt, "cmd_rc"),
                        "TimeoutError does not carry the packet of the "
                        "command that timed out", {"packet": repr(pkt)[:120]})
                cid = pkt.arg1
                tx = sends.get(cid, [])
                extra = case["bursts"][ev[2]]["cmds"][cid % 100000]
                require(cid in burst_cids[ev[2]] and len(tx) == n_tries,
                        "TimeoutError for a command that was not transmitted "
                        "exactly the configured number of tries",
                        {"command": cid, "transmissions": len(tx),
                         "n_tries": n_tries})
                require(cid not in answered, "TimeoutError for a command "
                        "whose reply had been received", {"command": cid})
                require(ev[1] >= tx[-1][0] + base + extra - 1e-9,
                        "TimeoutError before the last try's timeout elapsed",
                        {"command": cid})
    return classes


def check_history(case):
    events, outcomes, plan = run_history(case)
    classes = judge(case, events, outcomes)
    mattered = classes & {"retransmission", "duplicate-or-late-reply",
                          "stale-reply-in-later-burst", "fatal-code",
                          "retryable-code"}
    return {"nontrivial": bool(mattered), "classes": sorted(classes)}


# ---------------------------------------------------------- sequence wrap

def strat_wrap(tier):
    return st.fixed_dictionaries({
        "window": st.integers(4, 6),
        "slow": st.integers(0, 2),
        "stragglers": st.integers(1, 3),
        "count": st.sampled_from([65536 + 64, 65536 + 700]),
        "delay": st.sampled_from([5.0, 8.0])})


def check_wrap(case):
    """A slow command stays outstanding while the 16-bit sequence counter
    wraps: its number must not be given to another command."""
    from rig.machine_control import scp_connection as sc
    h = simnet.Harness()
    echo = Echo()
    h.net.attach("spinn", 17893, echo)
    slow = set(range(case["slow"], case["slow"] + case.get("stragglers",
                                                           1)))

    class SlowPlan(simnet.Perfect):
        def replies(self, net, sock, dest, data, replies):
            cmd, seq, cid = _parse(data)
            if cid in slow:
                return [(case["delay"], r) for r in replies]
            return [(0.0, r) for r in replies]
    h.net.plan = SlowPlan()
    got = {}
    seqs = {}

    def make_cb(cid):
        def cb(packet):
            rc, seq, rid = _parse(bytes(packet))
            got.setdefault(cid, []).append(rid)
        return cb
    h.net.select_limit = 40 * case["count"]
    with h:
        with sut("send_scp_burst"):
            conn = sc.SCPConnection("spinn", n_tries=2, timeout=20.0)
            conn.send_scp_burst(256, case["window"], (
                sc.scpcall(0, 0, 0, 5, cid, 0, 0, b"", make_cb(cid), 0.0)
                for cid in range(case["count"])))
    for cid in range(case["count"]):
        require(got.get(cid) == [cid], "after the sequence counter wrapped, "
                "a command's callback did not run exactly once with its own "
                "reply", {"command": cid, "replies_for": got.get(cid)})
    outstanding_seq = None
    for t, ident, dest, data in h.net.sent:
        cmd, seq, cid = _parse(data)
        seqs.setdefault(seq, []).append(cid)
    return {"nontrivial": True, "classes": ["wrapped"]}


CLAUSES = [
    Clause("bursts", check_history, strategy=strat_history,
           rule="1-4 bursts (0-40/300 commands, window 1-16, per-command "
                "extra timeouts, n_tries 1-5) x a fault plan per transmitted "
                "datagram (request lost; reply lost / delayed 0-7.5 timeouts "
                "/ duplicated / retryable code / fatal code); non-trivial = a "
                "fault mattered (a retransmission, a late or duplicate or "
                "stale reply, or an error code was received)",
           examples={"quick": 1500, "thorough": 12000},
           shards={"quick": 8, "thorough": 16}),
    Clause("sequence-wrap", check_wrap, strategy=strat_wrap,
           rule="65 600+ instantly answered commands with window 2-4 while "
                "the replies of 1-3 adjacent early commands are delayed, so "
                "the sequence counter returns to numbers that are still "
                "outstanding",
           examples={"quick": 2, "thorough": 6},
           shards={"quick": 2, "thorough": 4}),
]
