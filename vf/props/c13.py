"""C13 File-like memory views behave as bounded files and stay in their region.
"""
import base64
import warnings

from hypothesis import strategies as st

from vf.core import Clause, Violation, require, sut
from vf.sim import scamp
from vf.sim.world import World

PROPERTY_ID = "C13"
LEVEL = "exploration"
IMPORTS = ["rig.machine_control", "rig.machine_control.machine_controller"]
ASSUMPTIONS = [
    "views are obtained from sdram_alloc_as_filelike on the simulated "
    "machine; the allocation is surrounded by patterned guard bytes",
    "confinement is judged on the wire: every read/write command a view "
    "issues must lie inside [view start, view end) and no other byte of the "
    "machine may change",
    "not pinned (docstring, tests and code disagree): the sign convention of "
    "seek(n, 2) - both len-n and len+n are accepted and the model continues "
    "from the reported tell() - and what a transfer at a position outside "
    "[0, len] returns; only confinement is asserted there",
    "len() of a closed view is not counted as an operation that must fail",
]


def b64(b):
    return base64.b64encode(bytes(b)).decode()


@st.composite
def strat_history(draw, tier):
    big = tier == "thorough"
    size = draw(st.one_of(st.integers(0, 12), st.integers(0, 300)))
    if draw(st.integers(0, 9)) == 0:
        # an allocation of several kilobytes (transfers of 4 KiB and more)
        size = draw(st.sampled_from([4096, 4097, 4099, 5000, 8191, 9001]))
    span = size + 5
    # writes repeat a few payloads at a few places (views overlap, so the
    # same bytes are written to the same place more than once)
    pool = [b64(bytes((draw(st.integers(0, 255)) + i) & 0xff
                      for i in range(draw(st.integers(1, 8)))))
            for _ in range(3)]
    steps = []
    for _ in range(draw(st.integers(1, 80 if big else 30))):
        kind = draw(st.sampled_from(
            ["seek", "seek", "read", "read", "write", "write", "tell",
             "slice", "slice", "len", "close", "free", "with"]))
        if kind in ("close", "free", "with") and draw(st.integers(0, 5)):
            kind = "read"
        s = {"op": kind, "view": draw(st.integers(0, 20))}
        if kind == "seek":
            s["n"] = draw(st.integers(-span, span))
            s["whence"] = draw(st.sampled_from([0, 0, 0, 1, 1, 2, 2, 3,
                                                None]))
        elif kind == "read":
            s["n"] = draw(st.one_of(st.none(), st.integers(-3, span),
                                    st.integers(0, 12),
                                    st.sampled_from([-1, -2, -100, span])))
        elif kind == "write":
            n = draw(st.one_of(st.integers(0, 12), st.integers(0, span)))
            if size >= 4096 and draw(st.integers(0, 2)) == 0:
                # a long run of one byte value at a word-aligned place
                # (buffers are cleared or padded this way)
                s["data"] = b64(bytes([draw(st.sampled_from(
                    [0, 0xff, 1, 0xa5, draw(st.integers(0, 255))]))]) *
                    draw(st.sampled_from([1024, 1028, 2048, 4096])))
                steps.append({"op": "seek", "view": s["view"], "whence": 0,
                              "n": draw(st.sampled_from([0, 4, 8]))})
            elif draw(st.integers(0, 2)) == 0:
                s["data"] = draw(st.sampled_from(pool))
                # ... preceded by a seek to one of two places
                steps.append({"op": "seek", "view": s["view"], "whence": 0,
                              "n": draw(st.sampled_from([0, 2]))})
            else:
                s["data"] = b64(bytes((draw(st.integers(0, 255)) + i) & 0xff
                                      for i in range(n)))
        elif kind == "slice":
            idx = st.one_of(st.none(), st.integers(-span, span))
            s["start"] = draw(idx)
            s["stop"] = draw(idx)
            s["step"] = draw(st.sampled_from([None, None, None, 1, 2, -1,
                                              0]))
        if kind in ("read", "write") and draw(st.integers(0, 9)) == 0:
            s["fail"] = True           # the machine does not answer
        elif kind in ("read", "write") and draw(st.integers(0, 5)) == 0:
            # the program has turned truncation warnings into exceptions, as
            # the docstrings of read() and write() suggest
            s["strict"] = True
        if kind == "with":
            # the block is left normally or by an exception of the program's
            s["leave"] = draw(st.sampled_from(["normal", "exception"]))
        steps.append(s)
    return {"size": size, "buffer": draw(st.sampled_from([16, 64, 256])),
            "forget_root": draw(st.one_of(st.none(), st.none(),
                                          st.integers(1, 12))),
            "chip": draw(st.sampled_from([[0, 0], [1, 1]])),
            "tag": draw(st.sampled_from([0, 0, 3])),
            "clear": draw(st.booleans()), "steps": steps,
            # a second allocation of the same size on another chip, made
            # right after the first one: every chip's heap starts at the
            # same address, so the two views have the same base address
            "twin": draw(st.integers(0, 3)) == 0}


class _Leave(Exception):
    """Raised by the program inside a with block."""


class View(object):
    def __init__(self, obj, start, end, root, is_root=False):
        self.obj = obj
        self.start, self.end = start, end
        self.root = root            # root View
        self.is_root = is_root
        self.closed = False
        self.freed = False
        self.pos = 0                # as reported by tell()

    def dead(self):
        return self.closed or self.root.freed

    def __len__(self):
        return self.end - self.start


def _guard(chip, start, end):
    lo = start - 64
    hi = end + 64
    pat = bytes(((a * 5 + 1) & 0xff) for a in range(lo, hi))
    chip.mem.write(lo, pat)


def check_history(case):
    from rig.machine_control.machine_controller import TruncationWarning
    m = scamp.Machine(2, 2, buffer_size=case["buffer"]).populate()
    m.sync()
    x, y = case["chip"]
    chip = m.chips[(x, y)]
    classes = set()
    nontrivial = False
    with World(m) as w:
        with sut("sdram_alloc_as_filelike"):
            mc = w.controller()
            start_guess = (chip.heap_next + 3) & ~3
            _guard(chip, start_guess, start_guess + case["size"])
            if case["size"] == 0:
                # a zero-byte allocation is refused by the machine; build the
                # view directly on an address instead
                from rig.machine_control.machine_controller import MemoryIO
                root_obj = MemoryIO(mc, x, y, start_guess, start_guess)
                chip.allocs[start_guess] = (0, 66, 0)
            else:
                root_obj = mc.sdram_alloc_as_filelike(
                    case["size"], case["tag"], x, y, clear=case["clear"])
        start = start_guess
        if case["size"]:
            require(start in chip.allocs and
                    chip.allocs[start][0] == case["size"],
                    "sdram_alloc_as_filelike did not allocate the requested "
                    "block", {"allocs": repr(chip.allocs)})
            if case["clear"]:
                require(chip.mem.read(start, case["size"]) ==
                        bytes(case["size"]), "clear=True did not zero the "
                        "allocation", {})
        root = View(root_obj, start, start + case["size"], None, True)
        root.root = root
        views = [root]
        escaped_seek = False
        twin = None
        if case.get("twin") and case["size"]:
            ox, oy = (1, 1) if (x, y) == (0, 0) else (0, 0)
            ochip = m.chips[(ox, oy)]
            with sut("sdram_alloc_as_filelike (another chip)"):
                twin = mc.sdram_alloc_as_filelike(case["size"], case["tag"],
                                                  ox, oy)
                tbase = twin.address
            require(tbase in ochip.allocs, "the second allocation is not on "
                    "the chip that was named", {"address": tbase})
            tn = min(case["size"], 9)
            ochip.mem.write(tbase, bytes((37 * j + 11) & 0xff
                                         for j in range(tn)))
            classes.add("twin-same-address" if tbase == start
                        else "twin-other-address")
        raised = result = caught = None
        for i, step in enumerate(case["steps"]):
            if case.get("forget_root") == i and len(views) > 1 and \
                    root.obj is not None:
                # the program keeps only slices: its last reference to the
                # root view goes away (neither closed nor freed)
                import gc
                raised = result = caught = v = None
                root.obj = root_obj = None
                gc.collect()
                classes.add("root-forgotten")
            v = views[step["view"] % len(views)]
            if v.obj is None:
                continue
            kind = step["op"]
            if kind == "free" and root.obj is None:
                continue            # nothing left to call free() on
            det = {"step": i, "op": dict(step), "view": [v.start - start,
                                                         v.end - start],
                   "position": v.pos, "view_length": len(v)}
            snaps = dict((xy, c.mem.snapshot()) for xy, c in m.chips.items())
            log_at = len(m.log)
            dead = v.dead()
            raised = None
            result = None
            failing = bool(step.get("fail"))
            if failing:
                chip.silent = True
            strict = bool(step.get("strict")) and not failing
            with warnings.catch_warnings(record=True) as caught:
                warnings.simplefilter("always")
                if strict:
                    warnings.simplefilter("error", TruncationWarning)
                try:
                    with sut("view.%s" % kind, (OSError, ValueError) + (
                            (TruncationWarning,) if strict else ())):
                        if kind == "seek":
                            if step["whence"] is None:
                                v.obj.seek(step["n"])
                            else:
                                v.obj.seek(step["n"], step["whence"])
                        elif kind == "read":
                            result = v.obj.read() if step["n"] is None \
                                else v.obj.read(step["n"])
                        elif kind == "write":
                            result = v.obj.write(
                                base64.b64decode(step["data"]))
                        elif kind == "tell":
                            result = v.obj.tell()
                        elif kind == "len":
                            result = len(v.obj)
                        elif kind == "slice":
                            result = v.obj[slice(step["start"], step["stop"],
                                                 step["step"])]
                        elif kind == "close":
                            v.obj.close()
                        elif kind == "with":
                            try:
                                with v.obj as inner:
                                    require(inner is v.obj, "__enter__ does "
                                            "not return the view", det)
                                    if step.get("leave") == "exception":
                                        raise _Leave()
                            except _Leave:
                                pass
                        elif kind == "free":
                            v.root.obj.free()
                except (OSError, ValueError, TruncationWarning) as e:
                    raised = e
            chip.silent = False
            from rig.machine_control.scp_connection import SCPError
            if failing and isinstance(raised, SCPError):
                # nothing was transferred: the position must not have moved
                # and nothing may have changed
                for xy, c in m.chips.items():
                    require(not c.mem.diff(snaps[xy]), "a transfer that "
                            "failed changed memory", det)
                if not v.dead():
                    with sut("tell"):
                        t = v.obj.tell()
                    require(t == v.pos, "the position moved although the "
                            "transfer failed and no byte was transferred",
                            dict(det, tell=t))
                classes.add("failed-transfer")
                continue
            # ---- confinement (always)
            for entry in m.log[log_at:]:
                if entry["cmd"] in (2, 3) and (entry["x"], entry["y"]) == \
                        (x, y):
                    a, n = entry["arg1"], entry["arg2"]
                    require(v.start <= a and a + n <= v.end and n > 0,
                            "a view issued a %s outside its own range"
                            % ("read" if entry["cmd"] == 2 else "write"),
                            dict(det, address_offset=a - start, length=n))
            for xy, c in m.chips.items():
                d = c.mem.diff(snaps[xy])
                d = [e for e in d if not (c is chip and
                                          v.start <= e[0] < v.end)]
                require(not d, "an operation on a view changed memory "
                        "outside the view",
                        dict(det, chip=list(xy),
                             offset=(d[0][0] - start) if d else None))
            truncs = [c for c in caught
                      if issubclass(c.category, TruncationWarning)]
            # ---- closed / freed
            if kind == "free":
                if v.root.freed:
                    require(isinstance(raised, OSError), "free() of a freed "
                            "allocation does not fail", det)
                else:
                    require(raised is None, "free() failed", dict(
                        det, error=repr(raised)))
                    require(root.start not in chip.allocs, "free() did not "
                            "release the allocation on the machine", det)
                    v.root.freed = True
                    classes.add("freed")
                continue
            if dead and kind not in ("len", "close", "with"):
                require(isinstance(raised, OSError), "an operation on a "
                        "closed or freed view does not fail with OSError",
                        dict(det, raised=repr(raised), result=repr(result)))
                classes.add("op-on-dead-view")
                continue
            if kind in ("close", "with"):
                if not (dead and v.root.freed):
                    require(raised is None or dead, "close failed",
                            dict(det, error=repr(raised)))
                v.closed = True
                classes.add("closed")
                continue
            if kind == "len":
                require(raised is None and result == len(v), "len() of a "
                        "view is not the size of its range",
                        dict(det, got=result))
                continue
            L = len(v)
            inside = 0 <= v.pos <= L
            if strict and kind in ("read", "write"):
                classes.add("warnings-as-errors")
                if kind == "read":
                    n = step["n"]
                    should = n is not None and n >= 0 and v.pos + n > L
                else:
                    should = len(base64.b64decode(step["data"])) > L - v.pos
                refused = isinstance(raised, TruncationWarning)
                if inside:
                    require(refused == should, "truncation warning " +
                            ("missing" if should else "emitted for a "
                             "transfer that fits") + " (warnings turned "
                            "into exceptions)", det)
                if refused:
                    # the call ended in the exception: whatever it did
                    # before, the position has advanced by exactly the
                    # bytes that were transferred
                    moved = sum(e["arg2"] for e in m.log[log_at:]
                                if e["cmd"] in (2, 3) and
                                (e["x"], e["y"]) == (x, y))
                    with sut("tell"):
                        t = v.obj.tell()
                    require(t - v.pos == moved, "a transfer refused with "
                            "a truncation error moved %d bytes but the "
                            "position advanced by %d" % (moved, t - v.pos),
                            det)
                    if kind == "write" and moved:
                        data = base64.b64decode(step["data"])
                        require(chip.mem.read(v.start + v.pos, moved) ==
                                data[:moved], "the written prefix is not in "
                                "memory at the view's position", det)
                    v.pos = t
                    classes.add("refused-truncation")
                    nontrivial = True
                    continue
            if kind == "seek":
                wh = 0 if step["whence"] is None else step["whence"]
                if wh == 3:
                    require(isinstance(raised, ValueError), "seek with an "
                            "unknown whence is not rejected", det)
                    continue
                require(raised is None, "seek failed", dict(
                    det, error=repr(raised)))
                with sut("tell"):
                    t = v.obj.tell()
                if wh == 0:
                    ok = t == step["n"]
                elif wh == 1:
                    ok = t == v.pos + step["n"]
                else:
                    ok = t in (L - step["n"], L + step["n"])
                require(ok, "tell() after seek is not the position sought",
                        dict(det, tell=t))
                v.pos = t
                if not 0 <= t <= L:
                    escaped_seek = True
                    classes.add("position-outside")
            elif kind == "tell":
                require(raised is None and result == v.pos, "tell() is not "
                        "the position left by the previous operations",
                        dict(det, got=result))
            elif kind == "read":
                require(raised is None, "read failed", dict(
                    det, error=repr(raised)))
                if inside:
                    n = step["n"]
                    want = L - v.pos if n is None or n < 0 \
                        else min(n, L - v.pos)
                    exp = chip_read(snaps[(x, y)], v.start + v.pos, want)
                    require(bytes(result) == exp, "read does not return the "
                            "bytes stored at the view's position",
                            dict(det, got_length=len(result),
                                 expected_length=want))
                    should_warn = n is not None and n >= 0 and \
                        v.pos + n > L
                    require(bool(truncs) == should_warn, "truncation "
                            "warning " + ("missing" if should_warn else
                                          "emitted for a read that fits"),
                            det)
                    with sut("tell"):
                        t = v.obj.tell()
                    require(t == v.pos + want, "position does not advance "
                            "by the bytes read", dict(det, tell=t))
                    v.pos = t
                    if want and (escaped_seek or not v.is_root):
                        nontrivial = True
                else:
                    with sut("tell"):
                        v.pos = v.obj.tell()
                    classes.add("transfer-at-outside-position")
                    nontrivial = True
            elif kind == "write":
                data = base64.b64decode(step["data"])
                require(raised is None, "write failed", dict(
                    det, error=repr(raised)))
                if inside:
                    want = min(len(data), L - v.pos)
                    require(result == want, "write does not report the "
                            "bytes that fit", dict(det, got=result,
                                                   expected=want))
                    got = chip.mem.read(v.start + v.pos, want)
                    require(got == data[:want], "the written prefix is not "
                            "in memory at the view's position", det)
                    require(bool(truncs) == (len(data) > L - v.pos),
                            "truncation warning " +
                            ("missing" if len(data) > L - v.pos else
                             "emitted for a write that fits"), det)
                    with sut("tell"):
                        t = v.obj.tell()
                    require(t == v.pos + want, "position does not advance "
                            "by the bytes written", dict(det, tell=t))
                    v.pos = t
                    if want and (escaped_seek or not v.is_root):
                        nontrivial = True
                else:
                    with sut("tell"):
                        v.pos = v.obj.tell()
                    classes.add("transfer-at-outside-position")
                    nontrivial = True
            elif kind == "slice":
                step_ = step["step"]
                if step_ not in (None, 1):
                    require(isinstance(raised, ValueError), "a "
                            "non-contiguous slice is not rejected", det)
                    continue
                require(raised is None, "slicing failed", dict(
                    det, error=repr(raised)))
                r = range(L)[slice(step["start"], step["stop"])]
                n = len(r)
                with sut("len(slice)"):
                    got_len = len(result)
                require(got_len == n, "a slice does not cover the clipped "
                        "sub-range it names", dict(det, got_length=got_len,
                                                   expected_length=n))
                s0 = v.start + (r.start if n else 0)
                if n:
                    with sut("slice.address"):
                        a = result.address
                    require(a == s0, "a slice does not start where the "
                            "clipped sub-range starts",
                            dict(det, got_offset=a - start,
                                 expected_offset=s0 - start))
                    with sut("slice.tell"):
                        require(result.tell() == 0, "a new slice does not "
                                "start at position 0", det)
                nv = View(result, s0 if n else v.start, (s0 + n) if n
                          else v.start, v.root)
                if n == 0:
                    # an empty slice may sit anywhere inside its parent
                    with sut("slice.address"):
                        a = result.address
                    require(v.start <= a <= v.end, "an empty slice lies "
                            "outside its parent", dict(det, offset=a - start))
                    nv.start = nv.end = a
                views.append(nv)
                classes.add("slice-of-slice" if not v.is_root else "slice")
        if twin is not None:
            # whatever happened to the first allocation and its views, the
            # view of the other chip's block is alive and well
            with sut("the view of another chip's allocation"):
                twin.seek(0)
                got = twin.read(tn)
                pos = twin.tell()
            require(bytes(got) == bytes((37 * j + 11) & 0xff
                                        for j in range(tn)) and pos == tn,
                    "a view of another chip's allocation does not read its "
                    "own memory after the history on the first view",
                    {"got": bytes(got).hex(), "position": pos})
            with sut("free() of the view of another chip's allocation"):
                twin.free()
            require(tbase not in ochip.allocs, "free() of the second view "
                    "did not release its allocation", {})
        if m.violations:
            raise Violation("malformed command: %s" % m.violations[0][0],
                            m.violations[0][1])
    return {"nontrivial": nontrivial, "classes": sorted(classes)}


def chip_read(snap, addr, n):
    out = bytearray(n)
    for i in range(n):
        p, off = divmod(addr + i, scamp.PAGE)
        page = snap.get(p)
        out[i] = page[off] if page is not None else 0
    return bytes(out)


CLAUSES = [
    Clause("histories", check_history, strategy=strat_history,
           rule="histories of seek (any offset, whence 0-3) / read (any "
                "count, default, negative) / write / tell / len / slicing "
                "(negative, reversed, None, steps) / slices of slices / close "
                "/ with / free on a view of 0-300 bytes with guard bytes "
                "around it; non-trivial = a transfer of >= 1 byte after a "
                "seek outside [0, len] or on a slice, or any transfer "
                "attempted at an outside position",
           examples={"quick": 1200, "thorough": 10000},
           shards={"quick": 8, "thorough": 16}),
]
