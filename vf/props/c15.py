"""C15 SDP and SCP packets encode to the wire layout and decode back."""
import base64

from hypothesis import strategies as st

from vf.core import Clause, require, sut
from vf.oracle import sdpcodec as ref

PROPERTY_ID = "C15"
LEVEL = "exploration"
IMPORTS = ["rig.machine_control.packets"]
ASSUMPTIONS = [
    "field values are inside their documented width (ports 0-7, cores 0-31, "
    "coordinates and tag 0-255, cmd_rc and seq 16 bit, arguments 32 bit)",
    "arguments are present as a leading run (arg1, then arg2, then arg3)",
    "decoded datagrams are at least as long as the header they are decoded "
    "as (10 bytes SDP, 14 bytes SCP)",
]

WIDTH = {"tag": 8, "dest_port": 3, "dest_cpu": 5, "src_port": 3, "src_cpu": 5,
         "dest_x": 8, "dest_y": 8, "src_x": 8, "src_y": 8, "cmd_rc": 16,
         "seq": 16, "arg1": 32, "arg2": 32, "arg3": 32}


def edge_int(bits):
    top = (1 << bits) - 1
    return st.one_of(st.integers(0, top), st.sampled_from(
        sorted(set([0, 1, top, top >> 1, (top >> 1) + 1, top - 1]))))


def b64(b):
    return base64.b64encode(bytes(b)).decode("ascii")


def unb64(s):
    return base64.b64decode(s)


def payload():
    return st.one_of(
        st.binary(max_size=11), st.binary(max_size=11),
        st.binary(max_size=300),
        st.integers(0, 300).map(lambda n: bytes((i * 37 + 1) & 0xff
                                               for i in range(n)))).map(b64)


def header_fields():
    return dict(
        reply_expected=st.booleans(),
        **dict((f, edge_int(WIDTH[f])) for f in
               ["tag", "dest_port", "dest_cpu", "src_port", "src_cpu",
                "dest_x", "dest_y", "src_x", "src_y"]))


def strat_sdp(tier):
    return st.fixed_dictionaries(dict(header_fields(), data=payload()))


def strat_scp(tier):
    return st.fixed_dictionaries(dict(
        header_fields(), data=payload(), cmd_rc=edge_int(16),
        seq=edge_int(16), n_present=st.integers(0, 3),
        args=st.tuples(edge_int(32), edge_int(32), edge_int(32)),
        # each argument may be None on its own: the present ones are packed
        # in order (None = the first n_present are present)
        present=st.one_of(st.none(), st.none(), st.none(),
                          st.lists(st.booleans(), min_size=3, max_size=3)),
        n_args=st.one_of(st.none(), st.integers(0, 4)),
        # the argument count given by position: from_bytestring(data, 2)
        positional=st.booleans()))


def _packet_fields(p, names):
    out = {}
    for n in names:
        v = getattr(p, n)
        out[n] = bytes(v) if n == "data" else v
    return out


def _model(case, scp):
    m = dict((k, case[k]) for k in ref.SDP_FIELDS if k != "data")
    m["data"] = unb64(case["data"])
    if scp:
        m["cmd_rc"], m["seq"] = case["cmd_rc"], case["seq"]
        pres = case.get("present") or [i < case["n_present"]
                                       for i in range(3)]
        for i, a in enumerate(("arg1", "arg2", "arg3")):
            m[a] = case["args"][i] if pres[i] else None
    return m


def _same(got, want, what, extra=None):
    for k in want:
        g, w = got[k], want[k]
        if k == "reply_expected":
            g, w = bool(g), bool(w)
        if g != w or (k != "data" and w is not None and g is None):
            require(False, "%s: field %s differs" % (what, k),
                    dict(extra or {}, field=k, got=repr(g), expected=repr(w)))


def check_sdp(case):
    from rig.machine_control import packets
    m = _model(case, False)
    with sut("SDPPacket.bytestring"):
        p = packets.SDPPacket(**m)
        bs = bytes(p.bytestring)
    want = ref.encode_sdp(m)
    require(bs == want, "SDP encoding differs from the documented layout",
            {"got": bs.hex(), "expected": want.hex()})
    with sut("SDPPacket.from_bytestring"):
        q = packets.SDPPacket.from_bytestring(bs)
    _same(_packet_fields(q, ref.SDP_FIELDS), m, "SDP decode(encode(p))")
    return {"nontrivial": 1 <= len(m["data"]) <= 11 or m["dest_cpu"] > 15,
            "classes": ["reply" if m["reply_expected"] else "noreply"]}


def check_scp(case):
    from rig.machine_control import packets
    m = _model(case, True)
    with sut("SCPPacket.bytestring"):
        p = packets.SCPPacket(**m)
        bs = bytes(p.bytestring)
    want = ref.encode_scp(m)
    require(bs == want, "SCP encoding differs from the documented layout",
            {"got": bs.hex(), "expected": want.hex()})
    n_present = case["n_present"]
    pres = case.get("present")
    if pres and pres != [i < sum(pres) for i in range(3)]:
        # an argument is missing before one that is present: only the
        # encoding is defined (decoding cannot tell which one was left out)
        return {"nontrivial": True, "classes": ["argument-hole"]}
    if pres:
        n_present = sum(pres)
    # same argument count: equal in every field
    with sut("SCPPacket.from_bytestring"):
        if case.get("positional"):
            q = packets.SCPPacket.from_bytestring(bs, n_present)
        else:
            q = packets.SCPPacket.from_bytestring(bs, n_args=n_present)
    _same(_packet_fields(q, ref.SCP_FIELDS), m, "SCP decode(encode(p), "
          "n_args=number of arguments present)", {"n_args": n_present})
    # any other argument count: agree with the reference decoder
    k = case["n_args"]
    with sut("SCPPacket.from_bytestring"):
        if k is None:
            q = packets.SCPPacket.from_bytestring(bs)
            k = 3
        elif case.get("positional"):
            q = packets.SCPPacket.from_bytestring(bs, k)
        else:
            q = packets.SCPPacket.from_bytestring(bs, n_args=k)
    _same(_packet_fields(q, ref.SCP_FIELDS), ref.decode_scp(bs, k),
          "SCP decode with another argument count", {"n_args": k,
                                                     "bytes": bs.hex()})
    dl = len(m["data"])
    return {"nontrivial": 1 <= dl <= 11 or k != n_present,
            "classes": ["present%d" % n_present, "n_args%d" % k] +
                       (["short-payload"] if 1 <= dl <= 11 else []) +
                       (["count-by-position"] if case.get("positional")
                        else [])}


def strat_bytes(tier):
    return st.fixed_dictionaries({
        "bytes": st.one_of(st.binary(min_size=14, max_size=40),
                           st.binary(min_size=14, max_size=400)).map(b64),
        "n_args": st.integers(0, 4),
        "flag": st.sampled_from([None, None, 0x87, 0x07]),
        "positional": st.booleans(),
        # what a socket hands over is not always `bytes`
        "buffer": st.sampled_from(["bytes", "bytes", "bytearray",
                                   "memoryview"])})


def check_bytes(case):
    from rig.machine_control import packets
    b = bytearray(unb64(case["bytes"]))
    if case["flag"] is not None:
        b[2] = case["flag"]
    b = bytes(b)
    k = case["n_args"]
    raw = {"bytes": bytes, "bytearray": bytearray,
           "memoryview": memoryview}[case.get("buffer", "bytes")](b)
    with sut("SDPPacket.from_bytestring"):
        q = packets.SDPPacket.from_bytestring(raw)
    _same(_packet_fields(q, ref.SDP_FIELDS), ref.decode_sdp(b),
          "SDP decode of arbitrary bytes", {"bytes": b.hex()})
    with sut("SDPPacket.bytestring"):
        again = bytes(q.bytestring)
    norm = b"\0\0" + (b"\x87" if b[2] == 0x87 else b"\x07") + b[3:]
    require(again == norm, "SDP re-encoding of a decoded datagram differs",
            {"bytes": b.hex(), "again": again.hex()})
    with sut("SCPPacket.from_bytestring"):
        if case.get("positional"):
            q = packets.SCPPacket.from_bytestring(raw, k)
        else:
            q = packets.SCPPacket.from_bytestring(raw, n_args=k)
    want = ref.decode_scp(b, k)
    _same(_packet_fields(q, ref.SCP_FIELDS), want,
          "SCP decode of arbitrary bytes", {"bytes": b.hex(), "n_args": k})
    with sut("SCPPacket.bytestring"):
        again = bytes(q.bytestring)
    require(again == norm, "SCP re-encoding of a decoded datagram differs",
            {"bytes": b.hex(), "again": again.hex(), "n_args": k})
    avail = (len(b) - 14) // 4
    return {"nontrivial": avail < k or (len(b) - 14) % 4 != 0,
            "classes": ["avail%d" % min(avail, 4), "n_args%d" % k]}


# ------------------------------------------- every value of every field (enum)

BASES = [
    dict(reply_expected=False, tag=0, dest_port=0, dest_cpu=0, src_port=0,
         src_cpu=0, dest_x=0, dest_y=0, src_x=0, src_y=0, cmd_rc=0, seq=0,
         arg1=0, arg2=0, arg3=0, data=b""),
    dict(reply_expected=True, tag=255, dest_port=7, dest_cpu=31, src_port=7,
         src_cpu=31, dest_x=255, dest_y=255, src_x=255, src_y=255,
         cmd_rc=0xffff, seq=0xffff, arg1=0xffffffff, arg2=0xffffffff,
         arg3=0xffffffff, data=b"\xff\xff\xff"),
    dict(reply_expected=True, tag=0xa5, dest_port=5, dest_cpu=0x12, src_port=2,
         src_cpu=0x0d, dest_x=0x3c, dest_y=0xc3, src_x=0x69, src_y=0x96,
         cmd_rc=0x1234, seq=0xfedc, arg1=0x01020304, arg2=0xa0b0c0d0,
         arg3=0x5a5a5a5a, data=b"\x01"),
]


def _values(field):
    bits = WIDTH[field]
    if bits <= 16:
        return list(range(1 << bits))
    vals = set([0, 0xffffffff])
    for i in range(32):
        vals.add(1 << i)
        vals.add(0xffffffff ^ (1 << i))
        vals.add((1 << i) - 1)
        vals.add((0x9e3779b9 * (i + 1)) & 0xffffffff)
    return sorted(vals)


def enum_fields(tier, shard, nshards):
    i = 0
    for field in sorted(WIDTH):
        vals = _values(field)
        step = 4096
        for lo in range(0, len(vals), step):
            i += 1
            if i % nshards == shard:
                yield {"field": field, "lo": lo, "hi": min(len(vals),
                                                           lo + step)}
    # all 2^16 combinations of the two port/core bytes
    for dest in range(0, 256, 16):
        i += 1
        if i % nshards == shard:
            yield {"field": "portcore", "lo": dest, "hi": dest + 16}


def check_fields(case):
    from rig.machine_control import packets
    field = case["field"]
    if field == "portcore":
        for d in range(case["lo"], case["hi"]):
            for s in range(256):
                m = dict(BASES[2], dest_port=d >> 5, dest_cpu=d & 31,
                         src_port=s >> 5, src_cpu=s & 31)
                _one(packets, m, field)
        return {"nontrivial": True, "classes": [field]}
    vals = _values(field)[case["lo"]:case["hi"]]
    for v in vals:
        for base in BASES:
            m = dict(base)
            m[field] = v
            _one(packets, m, field)
    return {"nontrivial": True, "classes": [field]}


def _one(packets, m, field):
    with sut("SCPPacket encode/decode"):
        bs = bytes(packets.SCPPacket(**m).bytestring)
        q = packets.SCPPacket.from_bytestring(bs, n_args=3)
    want = ref.encode_scp(m)
    require(bs == want, "SCP encoding differs from the documented layout "
            "(field sweep of %s)" % field,
            {"fields": repr(m), "got": bs.hex(), "expected": want.hex()})
    _same(_packet_fields(q, ref.SCP_FIELDS), m, "decode(encode(p)) in the "
          "sweep of %s" % field, {"fields": repr(m)})
    if field in ref.SDP_FIELDS:
        sm = dict((k, m[k]) for k in ref.SDP_FIELDS)
        with sut("SDPPacket encode/decode"):
            bs = bytes(packets.SDPPacket(**sm).bytestring)
            q = packets.SDPPacket.from_bytestring(bs)
        require(bs == ref.encode_sdp(sm), "SDP encoding differs from the "
                "documented layout (field sweep of %s)" % field,
                {"fields": repr(sm), "got": bs.hex()})
        _same(_packet_fields(q, ref.SDP_FIELDS), sm, "SDP decode(encode(p)) "
              "in the sweep of %s" % field)


CLAUSES = [
    Clause("sdp-roundtrip", check_sdp, strategy=strat_sdp,
           rule="random SDP packets, every field over its full width with "
                "edge values; non-trivial = payload of 1-11 bytes or core > "
                "15 (needs all five core bits)",
           examples={"quick": 1500, "thorough": 30000},
           shards={"quick": 4, "thorough": 16}),
    Clause("scp-roundtrip", check_scp, strategy=strat_scp,
           rule="random SCP packets with 0-3 leading arguments present, "
                "decoded with the matching and with a drawn argument count; "
                "non-trivial = payload of 1-11 bytes or n_args != arguments "
                "present",
           examples={"quick": 2500, "thorough": 60000},
           shards={"quick": 4, "thorough": 16}),
    Clause("decode-bytes", check_bytes, strategy=strat_bytes,
           rule="arbitrary datagrams of 14-400 bytes decoded as SDP and as "
                "SCP with n_args 0-4, compared with the reference decoder and "
                "re-encoded; non-trivial = fewer whole argument words "
                "available than asked for, or a ragged tail",
           examples={"quick": 2500, "thorough": 60000},
           shards={"quick": 4, "thorough": 16}),
    Clause("fuzz-decode", check_bytes,
           fuzz={"target": "c15", "runs": {"thorough": 400000},
                 "max_len": 420,
                 "corpus": [bytes([3]) + bytes(10) + bytes([0x80, 0, 1, 0]) +
                            bytes(range(12)) + b"payload",
                            bytes([1]) + bytes([0, 0, 0x87, 0xff, 0x21, 0xff,
                                                1, 2, 0, 0, 5, 0, 9, 0,
                                                1, 2, 3, 4]),
                            bytes([0]) + bytes(14)]},
           rule="Atheris (coverage-guided, thorough tier only): bytes -> "
                "(n_args, datagram) -> differential against the reference "
                "decoder and re-encode consistency; even shards start from "
                "an empty corpus, odd shards from three valid datagrams",
           examples={"quick": 0, "thorough": 0},
           shards={"quick": 1, "thorough": 4}),
    Clause("field-sweep", check_fields, enumerate=enum_fields,
           exhaustive=True,
           rule="every value of every header field up to 16 bits wide (and "
                "130 bit patterns per 32-bit argument) in three base packets, "
                "plus all 2^16 pairs of the two port/core bytes; one case = a "
                "block of <= 4096 values",
           shards={"quick": 16, "thorough": 16}),
]
