"""C17 Library calls neither modify their arguments nor remember earlier
calls."""
import hashlib
import json
import os
import random
import subprocess
import sys

from hypothesis import strategies as st

from vf.core import Clause, HarnessError, Violation, require, sut
from vf.gen import pr
from vf.gen import problems as gp
from vf.gen import tables as gt

PROPERTY_ID = "C17"
LEVEL = "exploration"
IMPORTS = ["rig.place_and_route", "rig.routing_table", "rig.bitfield",
           "rig.machine_control"]
ASSUMPTIONS = [
    "argument snapshots are deep structural fingerprints (dict and list "
    "order included, sets sorted, vertices by name, machines, nets, "
    "constraints, routing trees and table entries field by field)",
    "history independence: the canonical result of a probe call made after a "
    "generated history equals the result of the same probe made as the first "
    "library call of a fresh interpreter (PYTHONHASHSEED=0 on both sides, "
    "seeded random generators passed / random.seed called by the probe)",
    "results of fresh-interpreter probes are cached by the hash of the probe "
    "spec within a worker process",
]


# ------------------------------------------------------------- fingerprints

def fingerprint(o, depth=0):
    import enum
    from collections import OrderedDict
    from rig.netlist import Net
    from rig.place_and_route import Machine
    from rig.place_and_route.routing_tree import RoutingTree
    if depth > 60:
        return "<deep>"
    if o is None or isinstance(o, (bool, int, str)):
        if isinstance(o, enum.Enum):
            return ["enum", type(o).__name__, int(o)]
        return o
    if isinstance(o, float):
        return ["float", repr(o)]
    if isinstance(o, bytes):
        return ["bytes", o.hex()]
    if isinstance(o, enum.Enum):
        return ["enum", type(o).__name__, o.value]
    if isinstance(o, (pr.VObj, pr.IdObj)):
        return ["VObj", o.name]
    if isinstance(o, slice):
        return ["slice", o.start, o.stop, o.step]
    if isinstance(o, Net):
        return ["Net", fingerprint(o.source, depth + 1),
                fingerprint(o.sinks, depth + 1), fingerprint(o.weight)]
    if isinstance(o, Machine):
        return ["Machine", o.width, o.height,
                fingerprint(o.chip_resources, depth + 1),
                fingerprint(o.chip_resource_exceptions, depth + 1),
                fingerprint(o.dead_chips, depth + 1),
                fingerprint(o.dead_links, depth + 1)]
    if isinstance(o, RoutingTree):
        return ["RoutingTree", list(o.chip),
                [[fingerprint(r), fingerprint(c, depth + 1)]
                 for r, c in o.children]]
    if isinstance(o, dict):
        items = [[fingerprint(k, depth + 1), fingerprint(v, depth + 1)]
                 for k, v in o.items()]
        return ["dict", type(o).__name__, items]
    if isinstance(o, (list, tuple)):
        return [type(o).__name__] + [fingerprint(i, depth + 1) for i in o]
    if isinstance(o, (set, frozenset)):
        return ["set"] + sorted((fingerprint(i, depth + 1) for i in o),
                                key=lambda x: json.dumps(x, default=repr))
    if type(o).__module__.startswith("rig.place_and_route.constraints"):
        return [type(o).__name__, fingerprint(vars(o), depth + 1)]
    if type(o).__name__ == "_Sentinel" or "sentinel" in type(o).__module__:
        return ["sentinel", repr(o)]
    return ["object", type(o).__name__, repr(o)]


def snap(*objs):
    return json.dumps([fingerprint(o) for o in objs], default=repr)


class unchanged(object):
    """with unchanged("place", a, b, c): call(a, b, c)"""

    def __init__(self, what, *objs):
        self.what = what
        self.objs = objs

    def __enter__(self):
        self.before = snap(*self.objs)

    def __exit__(self, et, ev, tb):
        after = snap(*self.objs)
        if after != self.before:
            b = json.loads(self.before)
            a = json.loads(after)
            which = [i for i, (x, y) in enumerate(zip(a, b)) if x != y]
            raise Violation("%s modified one of its arguments" % self.what,
                            {"argument_index": which,
                             "before": json.dumps(b[which[0]])[:600],
                             "after": json.dumps(a[which[0]])[:600]})
        return False


def _containers(o, out, depth=0):
    """ids of the mutable containers reachable from o."""
    from rig.place_and_route.routing_tree import RoutingTree
    if depth > 8 or id(o) in out:
        return
    if isinstance(o, dict):
        out.add(id(o))
        for k, v in o.items():
            _containers(v, out, depth + 1)
    elif isinstance(o, (list, set, tuple, frozenset)):
        if isinstance(o, (list, set)):
            out.add(id(o))
        for v in o:
            _containers(v, out, depth + 1)
    elif isinstance(o, RoutingTree):
        out.add(id(o))
        out.add(id(o.children))
        for r, c in o.children:
            _containers(c, out, depth + 1)


def _scribble(o, depth=0, keep=()):
    """What a caller may do to an object it was given as a result: empty
    every mutable container in it - except those that are (parts of) the
    arguments of the call, which must stay as they are for the second call
    to be an identical one."""
    from rig.place_and_route.routing_tree import RoutingTree
    if depth > 6 or id(o) in keep:
        return
    if isinstance(o, RoutingTree) and id(o.children) in keep:
        return
    if isinstance(o, dict):
        for v in list(o.values()):
            _scribble(v, depth + 1, keep)
        o.clear()
    elif isinstance(o, list):
        for v in list(o):
            _scribble(v, depth + 1, keep)
        del o[:]
    elif isinstance(o, set):
        o.clear()
    elif isinstance(o, RoutingTree):
        for r, c in list(o.children):
            _scribble(c, depth + 1, keep)
        if isinstance(o.children, (list, set)):
            o.children.clear()
    elif isinstance(o, tuple):
        for v in o:
            if isinstance(v, (dict, list, set)):
                _scribble(v, depth + 1, keep)


def result_is_the_callers(what, call, result, *args):
    """`result` came from call() with the arguments `args`: the caller
    empties it (as far as it is not made of the arguments themselves), an
    identical second call must return an equal result.  Returns the second
    result."""
    before = snap(result)
    keep = set()
    for a in args:
        _containers(a, keep)
    args_before = snap(*args)
    _scribble(result, 0, keep)
    if snap(*args) != args_before:
        raise HarnessError("emptying a result changed an argument")
    again = call()
    after = snap(again)
    if after != before:
        raise Violation("%s returns a different result after the caller "
                        "emptied the result of an identical earlier call"
                        % what, {"first": before[:500], "second": after[:500]})
    return again


# ------------------------------------------ (A) arguments are not modified

def strat_args(tier):
    from vf.props import c01
    return c01.strat_pipeline(tier, "by-hand")


def check_args(case):
    from vf.props import c01
    from rig.place_and_route import allocate, route
    from rig.place_and_route.exceptions import (
        InsufficientResourceError, InvalidConstraintError,
        MachineHasDisconnectedSubregion)
    from rig.routing_table import (routing_tree_to_tables, minimise_tables,
                                   minimise_table, MinimisationFailedError)
    from rig.routing_table import ordered_covering as oc
    from rig.routing_table import remove_default_routes as rdr
    documented = (InsufficientResourceError, InvalidConstraintError,
                  MachineHasDisconnectedSubregion, MinimisationFailedError)
    vr, nets, machine, cons, vobj = gp.build_problem(case)
    keys = {}
    for net, pat in zip(nets, case["keys"]["pats"]):
        keys[net] = gt.pattern_key_mask(case["keys"], pat)
    place, place_kwargs = c01._placer(case)
    stages = []
    try:
        random.seed(case["seed"])
        with unchanged("place[%s]" % case["placer"], vr, nets, machine, cons,
                       place_kwargs.get("kernel_kwargs")):
            with sut("place", documented):
                placements = place(vr, nets, machine, cons, **place_kwargs)
        stages.append("place")
        _ordered_placers(case, vr, nets, machine, cons, documented)
        _deprecated_wrapper(case, vr, nets, keys, machine, cons, documented)
        with unchanged("allocate", vr, nets, machine, cons, placements):
            with sut("allocate", documented):
                allocations = allocate(vr, nets, machine, cons, placements)
        stages.append("allocate")
        edits = case["seed"] % 3 == 0
        if edits:
            with sut("allocate (again)", documented):
                allocations = result_is_the_callers(
                    "allocate", lambda: allocate(vr, nets, machine, cons,
                                                 placements), allocations,
                    vr, nets, machine, cons, placements)
        kw = {} if case["radius"] is None else {"radius": case["radius"]}
        random.seed(case["seed"] + 1)
        with unchanged("route", vr, nets, machine, cons, placements,
                       allocations):
            with sut("route", documented):
                routes = route(vr, nets, machine, cons, placements,
                               allocations, **kw)
        stages.append("route")
        if edits:
            def route_again():
                random.seed(case["seed"] + 1)
                return route(vr, nets, machine, cons, placements,
                             allocations, **kw)
            with sut("route (again)", documented):
                routes = result_is_the_callers(
                    "route", route_again, routes, vr, nets, machine, cons,
                    placements, allocations)
        with unchanged("routing_tree_to_tables", routes, keys):
            with sut("routing_tree_to_tables", documented):
                tables = routing_tree_to_tables(routes, keys)
        if edits:
            with sut("routing_tree_to_tables (again)", documented):
                tables = result_is_the_callers(
                    "routing_tree_to_tables",
                    lambda: routing_tree_to_tables(routes, keys), tables,
                    routes, keys)
            stages.append("results-emptied-by-the-caller")
        tables = dict(tables)
        stages.append("tables")
        t = case["target"]
        if isinstance(t, list):
            chips = sorted(tables)
            t = dict((c, t[i % len(t)]) for i, c in enumerate(chips))
        methods = None if case["methods"] is None else \
            c01._methods(case["methods"])
        if methods is not None and case["seed"] % 2:
            methods = list(methods)     # the form the wrapper's docs show
        def minimise_all():
            if methods is None:
                return minimise_tables(tables, t)
            return minimise_tables(tables, t, methods)
        with unchanged("minimise_tables", tables, t, methods):
            with sut("minimise_tables", documented):
                minimised = minimise_all()
        if edits:
            with sut("minimise_tables (again)", documented):
                result_is_the_callers("minimise_tables", minimise_all,
                                      minimised, tables, t, methods)
        stages.append("minimise_tables")
        for chip, table in sorted(tables.items())[:3]:
            for name, fn in (("ordered_covering.minimise", oc.minimise),
                             ("remove_default_routes.minimise",
                              rdr.minimise),
                             ("minimise_table", minimise_table)):
                with unchanged(name, table):
                    try:
                        with sut(name, documented):
                            fn(table, None)
                    except documented:
                        pass
            aliases = {}
            with unchanged("ordered_covering", table, aliases):
                with sut("ordered_covering", documented):
                    first, known = oc.ordered_covering(table, None, aliases)
            # the documented second use: the minimised table is updated with
            # further entries and minimised again with the aliases the first
            # pass returned - which are the caller's from then on
            others = [e for c2, t2 in sorted(tables.items()) if c2 != chip
                      for e in t2][:6] + list(table[:2])
            have = set((e.key, e.mask) for e in first)
            update = list(first) + [e for e in others
                                    if (e.key, e.mask) not in have]

            def xs(e):
                return bin(~e.mask & 0xffffffff).count("1")
            update.sort(key=xs)
            with unchanged("ordered_covering (second pass with the aliases "
                           "of the first)", update, known):
                with sut("ordered_covering", documented):
                    oc.ordered_covering(update, None, known)
        stages.append("single-table")
    except documented as e:
        stages.append(type(e).__name__)
    return {"nontrivial": "route" in stages and len(case["nets"]) > 0,
            "classes": stages + ["placer=" + case["placer"]]}


def _deprecated_wrapper(case, vr, nets, keys, machine, cons, documented):
    """The deprecated one-call wrapper with each combination of its two
    flags: neither the caller's objects nor the function's own default
    arguments may be changed."""
    import warnings
    from rig.place_and_route import wrapper
    apps = dict((v, "a.aplx") for v in vr)
    flags = [(True, True), (False, True), (True, False),
             (False, False)][case["seed"] % 4]
    defaults = [d for d in (wrapper.__defaults__ or ())
                if isinstance(d, (list, dict, set))]
    for given in (True, False):
        args = (vr, apps, nets, keys, machine) + ((cons,) if given else ())
        with warnings.catch_warnings():
            warnings.simplefilter("ignore")
            with unchanged("wrapper(reserve_monitor=%s, align_sdram=%s)"
                           % flags, vr, apps, nets, keys, machine, cons,
                           *defaults):
                try:
                    with sut("wrapper", documented):
                        wrapper(*args, reserve_monitor=flags[0],
                                align_sdram=flags[1])
                except documented:
                    pass


def _ordered_placers(case, vr, nets, machine, cons, documented):
    """The placers that take orders: the caller's order lists are arguments
    like any other, and the same call made twice gives the same answer."""
    from rig.place_and_route.place import sequential, breadth_first
    rng = random.Random(case["seed"])
    order = list(vr)
    rng.shuffle(order)
    chips = list(machine)
    rng.shuffle(chips)
    for name, fn, kw in (
            ("sequential.place", sequential.place,
             {"vertex_order": order, "chip_order": chips}),
            ("sequential.place", sequential.place, {"vertex_order": order}),
            ("breadth_first.place", breadth_first.place,
             {"chip_order": chips})):
        results = []
        for _ in range(2):
            with unchanged(name, vr, nets, machine, cons, order, chips):
                try:
                    with sut(name, documented):
                        results.append(sorted(
                            (repr(v), c) for v, c in fn(
                                vr, nets, machine, cons, **kw).items()))
                except documented as e:
                    results.append(type(e).__name__)
        require(results[0] == results[1], "%s gives a different result when "
                "the identical call is made a second time" % name,
                {"first": repr(results[0])[:300],
                 "second": repr(results[1])[:300]})


# ------------------------------------------ (B) independence from history

@st.composite
def route_probe(draw, tiny=False, radius=()):
    """Broadcast nets on a fault-free machine: trees with dozens of nodes, so
    that the router's memoised search rings are used.  `tiny` asks for a
    machine of at most 3x3 chips, `radius` fixes the search radius."""
    if tiny:
        w, h = draw(st.integers(1, 3)), draw(st.integers(1, 3))
        n = draw(st.integers(2, 4))
    else:
        w, h = draw(st.integers(6, 32)), draw(st.integers(6, 32))
        n = draw(st.integers(8, 80))
    m = {"w": w, "h": h, "mesh": draw(st.booleans()),
         "resources": {"Cores": 18}, "exceptions": [],
         "dead_chips": [], "dead_links": []}
    chips = draw(st.lists(st.tuples(st.integers(0, w - 1),
                                    st.integers(0, h - 1)),
                          min_size=n, max_size=n))
    names = ["v%d" % i for i in range(n)]
    if radius == ():
        radius = draw(st.sampled_from([0, 1, 2, 3, 5, 20, None]))
    return {"kind": "route", "case": {
        "machine": m,
        "chip_of": dict((v, list(c)) for v, c in zip(names, chips)),
        "alloc": {}, "endpoints": {},
        "nets": [{"source": names[0], "sinks": names[1:], "weight": 1}],
        "radius": radius,
        "seed": draw(st.integers(0, 1000)), "vkind": "str"}}


def probe_strategy(tier):
    from vf.props import c01, c02, c04, c08

    @st.composite
    def one(draw):
        kind = draw(st.sampled_from(["place", "pipeline", "route", "route",
                                     "route", "minimise", "bitfield",
                                     "controller", "place-many"]))
        if kind == "place-many":
            # 16-40 vertices with identity hashes, a seeded placer and no
            # constraints: the result exposes any dependence on set / address
            # order (the placers document determinism for ordered inputs)
            n = draw(st.integers(16, 40))
            w = draw(st.sampled_from([4, 5, 6, 7, 9, 10]))
            names = ["v%d" % i for i in range(n)]
            placer = draw(st.sampled_from(["sa-python", "sa-c", "rand"]))
            return {"kind": "place", "case": {
                "machine": {"w": w, "h": w, "mesh": draw(st.booleans()),
                            # (one core per chip: every vertex fills its chip)
                            "resources": {"Cores": draw(st.sampled_from(
                                [4, 4, 1]))}, "exceptions": [],
                            "dead_chips": [], "dead_links": []},
                "vertices": [{"name": v, "needs": {"Cores": 1}}
                             for v in names],
                "nets": draw(gp.nets_strategy(names, max_nets=6, max_fan=5,
                                              min_nets=1)),
                "constraints": [], "vkind": "idobj",
                "seed": draw(st.integers(0, 10 ** 6)), "placer": placer,
                "options": {"effort": draw(st.sampled_from([0.0, 0.05]))}
                if placer != "rand" else {}}}
        if kind == "route":
            return draw(route_probe())
        if kind == "place":
            placer = draw(st.sampled_from(["sa-c", "sa-python", "hilbert",
                                           "rcm", "breadth-first",
                                           "sequential", "rand"]))
            case = draw(c02.make_strategy(placer, False)("quick"))
            if placer in ("sa-c", "sa-python", "rand") and \
                    draw(st.booleans()):
                # seeded placers document deterministic results for ordered
                # inputs: also with vertices hashed by identity (address)
                case["vkind"] = "idobj"
            return {"kind": kind, "case": case}
        if kind == "pipeline":
            return {"kind": kind,
                    "case": draw(c01.strat_pipeline("quick", "by-hand"))}
        if kind == "minimise":
            # minimiser probes share one small key space, so that anything a
            # minimisation leaves behind can meet a later table
            return {"kind": kind,
                    "case": draw(c04.strat_oc("quick", c04.FIXED_KEYSPACE))}
        if kind == "bitfield":
            return {"kind": kind, "case": draw(c08.strat_free("quick"))}
        steps = draw(st.lists(st.fixed_dictionaries({
            "op": st.sampled_from(["new", "update", "enter", "exit", "work",
                                   "work"]),
            "args": st.dictionaries(st.sampled_from(["x", "y", "p",
                                                     "app_id"]),
                                    st.integers(0, 3), max_size=3)}),
            max_size=6))
        return {"kind": kind, "steps": steps}
    return one()


@st.composite
def strat_history(draw, tier):
    history = draw(st.lists(probe_strategy(tier), min_size=1,
                            max_size=8 if tier == "thorough" else 4))
    probe = draw(probe_strategy(tier))
    if probe["kind"] == "route" and draw(st.booleans()):
        # the same routing options met earlier on a much smaller machine
        history.append(draw(route_probe(tiny=True,
                                        radius=probe["case"]["radius"])))
    elif draw(st.booleans()):
        # make sure the history holds a call of the probe's function
        other = draw(probe_strategy(tier).filter(
            lambda p: p["kind"] == probe["kind"]))
        history.append(other)
    return {"history": history, "probe": probe}


_fresh_cache = {}
_server = {}


def _probe_env():
    env = dict(os.environ)
    here = os.path.dirname(os.path.dirname(os.path.dirname(
        os.path.abspath(__file__))))
    env["PYTHONPATH"] = os.pathsep.join(
        [os.environ.get("RIG_REPO", "/repo"), here,
         os.path.join(here, ".deps")])
    env["PYTHONHASHSEED"] = "0"
    env["PYTHONWARNINGS"] = "ignore"
    return env, here


def _spawn_result(text):
    """The probe as the very first call of a newly started interpreter."""
    env, here = _probe_env()
    p = subprocess.run([sys.executable, "-m", "vf.probe"], input=text,
                       capture_output=True, text=True, env=env, cwd=here,
                       timeout=600)
    line = [l for l in p.stdout.splitlines()
            if l.startswith("PROBE-RESULT:")]
    if p.returncode != 0 or not line:
        raise HarnessError("fresh-interpreter probe failed: %s"
                           % (p.stderr[-1500:],))
    return json.loads(line[-1][len("PROBE-RESULT:"):])


def _server_result(text):
    """The probe in a child forked from a process that has imported the
    library and called nothing (vf.probe --serve): same state as a new
    interpreter, at a fraction of the cost."""
    pid = os.getpid()
    srv = _server.get(pid)
    if srv is None or srv.poll() is not None:
        env, here = _probe_env()
        srv = subprocess.Popen([sys.executable, "-m", "vf.probe", "--serve"],
                               stdin=subprocess.PIPE, stdout=subprocess.PIPE,
                               stderr=subprocess.DEVNULL, text=True, env=env,
                               cwd=here)
        ready = srv.stdout.readline()
        if not ready.startswith("PROBE-SERVER-READY"):
            raise HarnessError("probe server did not start: %r" % ready)
        _server.clear()
        _server[pid] = srv
    srv.stdin.write(text + "\n")
    srv.stdin.flush()
    while True:
        line = srv.stdout.readline()
        if not line:
            raise HarnessError("probe server died")
        if line.startswith("PROBE-RESULT:"):
            return json.loads(line[len("PROBE-RESULT:"):])
        if line.startswith("PROBE-ERROR:"):
            raise HarnessError("fresh-state probe failed: %s"
                               % json.loads(line[len("PROBE-ERROR:"):]))


def fresh_result(spec):
    """Result of the probe made first in a fresh interpreter."""
    text = json.dumps(spec, sort_keys=True, default=repr)
    key = hashlib.sha1(text.encode()).hexdigest()
    if key in _fresh_cache:
        return _fresh_cache[key]
    if os.environ.get("VERIF_C17_FRESH", "fork") == "spawn":
        out = _spawn_result(text)
    else:
        out = _server_result(text)
    if len(_fresh_cache) > 500:
        _fresh_cache.clear()
    _fresh_cache[key] = out
    return out


def check_history(case):
    from vf import probe as vprobe
    kinds = []
    for spec in case["history"]:
        with sut("history call (%s)" % spec["kind"]):
            vprobe.run_probe(spec)
        kinds.append(spec["kind"])
    with sut("probe call"):
        got = vprobe.run_probe(case["probe"])
    got = json.loads(json.dumps(got, sort_keys=True, default=repr))
    want = fresh_result(case["probe"])
    if got != want:
        raise Violation(
            "a %s call returns a different result after other library calls "
            "than as the first call of a fresh interpreter"
            % case["probe"]["kind"],
            {"history": kinds, "after_history": json.dumps(got)[:800],
             "fresh_interpreter": json.dumps(want)[:800]})
    return {"nontrivial": case["probe"]["kind"] in kinds,
            "classes": ["probe=" + case["probe"]["kind"]]}


# ------------------------------------------------ separate bit fields

@st.composite
def strat_bitfields(draw, tier):
    from vf.props import c08
    return {"histories": [draw(c08.strat_free("quick"))
                          for _ in range(draw(st.integers(2, 4)))]}


def check_bitfields(case):
    """Definitions on separate bit fields are independent: the last history
    gives the same result whether or not the others ran before it (sharing
    the caller's tag-set objects, as a program with module-level tag
    constants would)."""
    from vf import probe as vprobe
    pool = {}
    saved = vprobe._TAG_SETS
    try:
        vprobe._TAG_SETS = pool
        for h in case["histories"][:-1]:
            vprobe.run_probe({"kind": "bitfield", "case": h})
        after = vprobe.run_probe({"kind": "bitfield",
                                  "case": case["histories"][-1]})
        for key, sset in pool.items():
            require(sset == set(key), "a bit field definition modified a "
                    "set of tags owned by the caller",
                    {"passed": sorted(key), "now": sorted(sset)})
        vprobe._TAG_SETS = {}
        alone = vprobe.run_probe({"kind": "bitfield",
                                  "case": case["histories"][-1]})
    finally:
        vprobe._TAG_SETS = saved
    a = json.dumps(after, sort_keys=True, default=repr)
    b = json.dumps(alone, sort_keys=True, default=repr)
    require(a == b, "a bit field behaves differently after definitions were "
            "made on other, separate bit fields",
            {"after_others": a[:700], "alone": b[:700]})
    shared = any(isinstance(st_.get("tags"), dict)
                 for h in case["histories"] for st_ in h["steps"])
    return {"nontrivial": shared and after[0] == "ok",
            "classes": ["shared-tag-sets"] if shared else []}


# ------------------------------------------------- machine control objects

def controller_probe(spec):
    """Create controllers one after another with context changes in between;
    the result describes the LAST, freshly created controller only."""
    from vf.sim import scamp
    from vf.sim.world import World
    m = scamp.Machine(2, 2).populate()
    m.sync(router=False, p2p=False)
    with World(m) as w:
        mc = w.controller()
        stack = []
        for s in spec["steps"]:
            if s["op"] == "new":
                mc = w.controller()
                stack = []
            elif s["op"] == "update":
                mc.update_current_context(**s["args"])
            elif s["op"] == "enter":
                c = mc(**s["args"])
                c.__enter__()
                stack.append(c)
            elif s["op"] == "exit" and stack:
                stack.pop().__exit__(None, None, None)
            elif s["op"] == "work":
                # the earlier controllers are not only configured but used
                _controller_work(mc, len(s.get("args", {})))
        from rig.machine_control.bmp_controller import BMPController
        last = w.controller()
        bmp = BMPController("bmp")
        n0 = len(m.log)
        last.read(0x60000000, 4, x=1, y=1)
        for k in range(3):
            _controller_work(last, k)
        wire = [[e["x"], e["y"], e["p"], e["cmd"], e["arg1"], e["arg2"],
                 e["arg3"], len(e["data"])] for e in m.log[n0:]]
        return ["controller", sorted(last.get_context_arguments().items()),
                sorted(bmp.get_context_arguments().items()), wire,
                sorted(k.decode() for k in last.structs)]


def _controller_work(mc, k):
    """A little real work through a controller (what it sends is part of the
    probe's result when done on the last controller)."""
    import tempfile
    from rig.machine_control.scp_connection import SCPError
    from rig.machine_control.machine_controller import SpiNNakerMemoryError
    try:
        if k % 3 == 0:
            with tempfile.NamedTemporaryFile(suffix=".aplx") as f:
                f.write(bytes(range(32)))
                f.flush()
                mc.flood_fill_aplx(f.name, {(0, 0): {1, 2}, (1, 1): {3}},
                                   app_id=30)
        elif k % 3 == 1:
            mc.sdram_alloc(16, tag=2, x=1, y=0, app_id=31)
        else:
            mc.get_chip_info(0, 1)
    except (SCPError, SpiNNakerMemoryError):
        # (a tag already taken by an earlier step of the history is refused)
        pass                      # what was sent is the datum


# ------------------------------------- a machine description edited in place

def strat_edited(tier):
    from vf.props import c03
    return c03.strat_links(tier).filter(
        lambda c: c.get("late_faults") and (c["late_faults"]["dead_links"] or
                                            c["late_faults"]["dead_chips"]))


def check_edited(case):
    """A Machine that was routed on, then had further faults recorded on it
    in place, routes like a Machine built with all of those faults."""
    from vf.props import c03
    from rig.place_and_route.exceptions import MachineHasDisconnectedSubregion

    def shapes(c):
        try:
            routes, nets, vobj = c03.run_route(c)
        except MachineHasDisconnectedSubregion:
            return "disconnected"
        return [c03._shape(routes[n]) for n in nets]
    edited = shapes(case)
    fresh = shapes(dict(case, late_faults=None))
    if edited != fresh:
        raise Violation(
            "routing on a Machine object that was routed on before and then "
            "edited in place differs from routing on an equal Machine built "
            "afresh", {"late_faults": case["late_faults"],
                       "edited": json.dumps(edited)[:500],
                       "fresh": json.dumps(fresh)[:500]})
    return {"nontrivial": fresh != "disconnected",
            "classes": ["mesh" if case["machine"]["mesh"] else "torus"]}


CLAUSES = [
    Clause("arguments-unchanged", check_args, strategy=strat_args,
           rule="the generated problems of C01 run stage by stage (place "
                "with a drawn placer, allocate, route, table generation, "
                "minimise_tables, the single-table minimisers and "
                "ordered_covering with an aliases dict); a deep fingerprint "
                "of every argument is compared before and after each call; "
                "non-trivial = the run reached routing with >= 1 net",
           examples={"quick": 500, "thorough": 8000},
           shards={"quick": 8, "thorough": 16}),
    Clause("separate-bitfields", check_bitfields, strategy=strat_bitfields,
           rule="2-4 bit field histories (C08's generator, incl. tag sets "
                "owned by the caller and re-used across bit fields) run one "
                "after another; the last one must give the same layout, tags "
                "and outcome as when run alone, and the caller's sets must be "
                "unchanged; non-trivial = a history passes a shared set and "
                "the last history lays out",
           examples={"quick": 500, "thorough": 8000},
           shards={"quick": 4, "thorough": 16}),
    Clause("history-independence", check_history, strategy=strat_history,
           rule="1-4/8 library calls with generated arguments (placers, the "
                "whole pipeline, minimisers, bit field histories, controller "
                "context changes) followed by a probe call; the probe's "
                "result must equal the one obtained in a fresh interpreter; "
                "non-trivial = the history contains a call of the probe's "
                "kind with other arguments",
           examples={"quick": 250, "thorough": 4000},
           shards={"quick": 8, "thorough": 16}),
    Clause("edited-machine", check_edited, strategy=strat_edited,
           rule="C03's machines with 10-30% one-way dead links, some of "
                "which are only recorded on the Machine object after it has "
                "been routed on once: the routes must equal those on a "
                "Machine built with all faults; non-trivial = the machine is "
                "still connected",
           examples={"quick": 300, "thorough": 5000},
           shards={"quick": 4, "thorough": 16}),
]
