"""C20 Boot sends the complete image carrying this call's options only."""
import os
import warnings
import shutil
import struct
import tempfile

from hypothesis import strategies as st

from vf.core import Clause, Violation, require, sut
from vf.oracle import svstruct
from vf.sim import net as simnet

PROPERTY_ID = "C20"
LEVEL = "exploration"
IMPORTS = ["rig.machine_control.boot", "rig.machine_control"]
ASSUMPTIONS = [
    "boot images are whole words long, at least 512 bytes (the "
    "configuration area ends at byte 512) and shorter than 32 KiB (asserted "
    "by the code)",
    "options override scalar system variables with values inside their "
    "width; unix_time, boot_sig and root_chip are set by the boot itself "
    "from the (virtual) clock",
    "the configuration area is the first 128 bytes of the struct file's sv "
    "defaults packed little-endian by an independent packer "
    "(vf/oracle/svstruct.py)",
]

PRESETS = ["spin1_boot_options", "spin2_boot_options", "spin3_boot_options",
           "spin4_boot_options", "spin5_boot_options"]


class BootListener(object):
    def __init__(self):
        self.datagrams = []

    def handle(self, data, dest):
        self.datagrams.append(bytes(data))
        return []


def option_fields():
    sv = svstruct.load()["sv"]
    return sorted(n for n, f in sv.fields.items()
                  if f.count == 1 and not f.perl.startswith("A") and
                  # boot_delay is also a parameter of boot() itself, so it
                  # cannot be given as a keyword option: excluded
                  n not in ("unix_time", "boot_sig", "root_chip",
                            "boot_delay") and
                  f.offset < 128)


@st.composite
def strat_history(draw, tier):
    fields = option_fields()
    sv = svstruct.load()["sv"]
    calls = []
    for _ in range(draw(st.integers(1, 5))):
        preset = draw(st.sampled_from([None, None] + PRESETS))
        extra = {}
        for name in draw(st.lists(st.sampled_from(fields), max_size=3,
                                  unique=True)):
            bits = 8 * sv.fields[name].elem_size
            extra[name] = draw(st.one_of(st.integers(0, (1 << bits) - 1),
                                         st.just((1 << bits) - 1)))
        # the three variables boot() sets itself may be named as well; the
        # value they end up with is not judged, the rest of the call is
        reserved = draw(st.sampled_from([None, None, None, "unix_time",
                                         "boot_sig", "root_chip"]))
        if reserved:
            extra[reserved] = draw(st.sampled_from([0, 1, 0x5f000000]))
        size = draw(st.sampled_from([None, None, 512, 516, 1024, 1028, 2048,
                                     3000, 32764]))
        if size is not None and draw(st.booleans()):
            size = 4 * draw(st.integers(128, 8191))
        # the operating system may refuse one send (ECONNREFUSED after an
        # ICMP error): the datagram handed to that send is NOT transmitted
        refuse = draw(st.sampled_from([None] * 14 + [0, 1, 2, 4, 7]))
        # another board is booted while this boot is under way (a program
        # with one thread per board: this thread is suspended in its k-th
        # send while the other one boots its board from start to end)
        overlap = None
        if refuse is None and draw(st.integers(0, 5)) == 0:
            name = draw(st.sampled_from(fields))
            bits = 8 * sv.fields[name].elem_size
            overlap = {"at": draw(st.integers(0, 3)),
                       "preset": draw(st.sampled_from([None] + PRESETS)),
                       "extra": {name: draw(st.integers(0, (1 << bits) - 1))}}
        style = draw(st.sampled_from(["kwargs", "sv_overrides", "both",
                                      "shared_dict"]))
        if style == "sv_overrides" and draw(st.integers(0, 2)) == 0:
            # the system variable that shares its name with a parameter of
            # boot() can only be named in the dictionary
            extra["boot_delay"] = draw(st.integers(0, 255))
        # a struct file of the caller's own (a newer SC&MP whose defaults
        # differ), with or without an image of the caller's own
        own_struct = None
        if draw(st.integers(0, 3)) == 0:
            own_struct = {}
            for name in draw(st.lists(st.sampled_from(fields), min_size=1,
                                      max_size=2, unique=True)):
                bits = 8 * sv.fields[name].elem_size
                own_struct[name] = draw(st.integers(0, (1 << bits) - 1))
        calls.append({
            "own_struct": own_struct,
            "positional": draw(st.booleans()),
            "overlap": overlap,
            "refuse_send": refuse, "dims": draw(st.booleans()),
            "via": draw(st.sampled_from(["boot", "boot", "controller"])),
            "preset": preset, "extra": extra,
            "style": style,
            "image": size, "delay": draw(st.sampled_from([0.0, 0.05])),
            "advance": draw(st.sampled_from([0.0, 1.5, 1000.25]))})
    return {"calls": calls}


def _struct_text(repo, defaults):
    """The bundled struct file with other default values for some system
    variables."""
    out = []
    with open(os.path.join(repo, "rig", "boot", "sark.struct")) as f:
        for line in f:
            body, sep, comment = line.rstrip("\n").partition("#")
            parts = body.split()
            if len(parts) == 5 and parts[0] in defaults:
                parts[4] = str(defaults[parts[0]])
                line = "  ".join(parts) + ("  #" + comment if sep else "") \
                    + "\n"
            out.append(line)
    return "".join(out)


def _split(data):
    ver, cmd, a1, a2, a3 = struct.unpack_from("!H4I", data)
    payload = data[18:]
    words = struct.unpack("!%dI" % (len(payload) // 4), payload) \
        if len(payload) % 4 == 0 else None
    return ver, cmd, a1, a2, a3, payload, words


def _reset_mutable_defaults(fn):
    """Each case must be a pure function of its steps: empty any mutable
    default argument a previous case in this process may have left filled."""
    for d in (fn.__defaults__ or ()):
        if isinstance(d, dict):
            d.clear()
        elif isinstance(d, (list, set)):
            del_all = getattr(d, "clear", None)
            if del_all:
                del_all()


def check_history(case):
    from rig.machine_control import boot as rboot
    _reset_mutable_defaults(rboot.boot)
    sv_bundled = svstruct.load()["sv"]
    tmp = tempfile.mkdtemp(prefix="vf-c20-")
    repo = os.environ.get("RIG_REPO", "/repo")
    with open(os.path.join(repo, "rig", "boot", "scamp.boot"), "rb") as f:
        bundled = f.read()
    shared = {}                      # a dict the caller re-uses across calls
    classes = set()
    had_options = False
    nontrivial = False
    try:
        h = simnet.Harness()
        with h:
            for i, call in enumerate(case["calls"]):
                host = "board%d" % i
                listener = BootListener()
                h.net.attach(host, 54321, listener)
                h.clock.now += call["advance"]
                options = {}
                if call["preset"]:
                    options.update(getattr(rboot, call["preset"]))
                options.update(call["extra"])
                kwargs = {"boot_delay": call["delay"], "post_boot_delay": 0.0}
                if call["image"] is None:
                    image = bundled
                else:
                    image = bytes((j * 7 + i) & 0xff
                                  for j in range(call["image"]))
                    # the same two file names are used again and again with
                    # new contents (an image rebuilt between two boots)
                    path = os.path.join(tmp, "img%d.boot" % (i % 2))
                    with open(path, "wb") as f:
                        f.write(image)
                    kwargs["scamp_binary"] = path
                sv = sv_bundled
                if call.get("own_struct"):
                    text = _struct_text(repo, call["own_struct"])
                    spath = os.path.join(tmp, "sark%d.struct" % (i % 2))
                    with open(spath, "w") as f:
                        f.write(text)
                    kwargs["sark_struct"] = spath
                    sv = svstruct.parse(text)["sv"]
                    classes.add("own-struct-file" + (
                        "" if call["image"] is None else "+own-image"))
                style = call["style"]
                passed = None
                if style == "kwargs":
                    kwargs.update(options)
                elif style == "sv_overrides":
                    passed = dict(options)
                    kwargs["sv_overrides"] = passed
                elif style == "both":
                    keys = sorted(options)
                    passed = dict((k, options[k]) for k in keys[::2])
                    kwargs["sv_overrides"] = passed
                    kwargs.update((k, options[k]) for k in keys[1::2])
                else:
                    # the caller keeps one dict of its own and passes extra
                    # options by keyword
                    passed = shared
                    kwargs["sv_overrides"] = passed
                    kwargs.update(options)
                    options = dict(shared, **options)
                snapshot = None if passed is None else dict(passed)
                t_call = h.clock.now
                refused = []
                if call.get("refuse_send") is not None:
                    counter = [0]

                    def fault(sock, data, k=call["refuse_send"],
                              counter=counter, refused=refused):
                        counter[0] += 1
                        if counter[0] - 1 == k:
                            refused.append(k)
                            return ConnectionRefusedError(
                                111, "Connection refused")
                        return None
                    h.net.send_fault = fault
                else:
                    h.net.send_fault = None
                inner = None
                if call.get("overlap") and call["via"] == "boot" and \
                        call.get("refuse_send") is None:
                    ov = call["overlap"]
                    inner = {"listener": BootListener(), "done": False,
                             "host": "board%d-other" % i, "count": 0,
                             "options": dict(getattr(rboot, ov["preset"])
                                             if ov["preset"] else {},
                                             **ov["extra"])}
                    h.net.attach(inner["host"], 54321, inner["listener"])

                    def meanwhile(sock, data, inner=inner, ov=ov,
                                  kwargs=kwargs):
                        inner["count"] += 1
                        if inner["count"] - 1 == ov["at"] and \
                                not inner["done"]:
                            inner["done"] = True
                            inner["t"] = h.clock.now
                            kw = {"boot_delay": 0.0, "post_boot_delay": 0.0}
                            if "scamp_binary" in kwargs:
                                kw["scamp_binary"] = kwargs["scamp_binary"]
                            kw.update(inner["options"])
                            with sut("boot of another board meanwhile"):
                                rboot.boot(inner["host"], **kw)
                        return None
                    h.net.send_fault = meanwhile
                try:
                    with sut("boot", (OSError,)):
                        if call["via"] == "boot" and \
                                style == "sv_overrides" and \
                                call.get("positional"):
                            # every parameter by position, in the
                            # documented order
                            structs = rboot.boot(
                                host, 54321, kwargs.get("scamp_binary"),
                                kwargs.get("sark_struct"),
                                kwargs["boot_delay"],
                                kwargs["post_boot_delay"],
                                kwargs["sv_overrides"])
                            classes.add("all-positional")
                        elif call["via"] == "boot":
                            structs = rboot.boot(host, **kwargs)
                        else:
                            from rig.machine_control import MachineController
                            mc = MachineController(host)
                            # (the deprecated width and height arguments
                            # are documented as ignored)
                            dims = (8, 8) if call.get("dims") else ()
                            with warnings.catch_warnings():
                                warnings.simplefilter("ignore")
                                ok = mc.boot(*dims,
                                             only_if_needed=bool(i % 2),
                                             check_booted=False, **kwargs)
                            require(ok is True, "MachineController.boot did "
                                    "not report that it booted the machine",
                                    {})
                            structs = mc.structs
                            t_call = None
                except OSError as e:
                    require(refused, "boot raises %s although every send "
                            "succeeded" % type(e).__name__, {"call": i})
                    classes.add("send-refused-reported")
                    h.net.send_fault = None
                    continue
                finally:
                    h.net.send_fault = None
                if refused:
                    classes.add("send-refused-unreported")
                if passed is not None:
                    require(passed == snapshot, "boot modified the "
                            "sv_overrides dictionary passed by the caller",
                            {"call": i, "before": snapshot, "after": passed})
                dgs = listener.datagrams
                det = {"call": i, "datagrams": len(dgs)}
                require(len(dgs) >= 3, "boot sent fewer than three "
                        "datagrams", det)
                n = (len(image) + 1023) // 1024
                ver, cmd, a1, a2, a3, payload, words = _split(dgs[0])
                require((ver, cmd, a3) == (1, 1, n - 1) and not payload,
                        "the first datagram is not a start command "
                        "announcing the number of blocks",
                        dict(det, version=ver, cmd=cmd, arg3=a3, blocks=n))
                ver, cmd, a1, a2, a3, payload, words = _split(dgs[-1])
                require((ver, cmd, a1) == (1, 5, 1) and not payload,
                        "the last datagram is not an end command",
                        dict(det, cmd=cmd, arg1=a1))
                require(len(dgs) == n + 2, "the number of block datagrams "
                        "differs from the announced count",
                        dict(det, announced=n))
                got = b""
                for b, dg in enumerate(dgs[1:-1]):
                    ver, cmd, a1, a2, a3, payload, words = _split(dg)
                    require(ver == 1 and cmd == 3 and (a1 & 0xff) == b,
                            "blocks are not numbered consecutively",
                            dict(det, block=b, cmd=cmd, arg1=a1))
                    require(words is not None and 0 < len(payload) <= 1024,
                            "a block is empty, longer than one kilobyte or "
                            "not a whole number of words",
                            dict(det, block=b, length=len(payload)))
                    got += struct.pack("<%dI" % len(words), *words)
                # expected configuration area
                named = [k for k in ("unix_time", "boot_sig", "root_chip")
                         if k in options]
                if t_call is None:
                    # via the controller: the time of the inner call is the
                    # one packed into the image; read it back
                    src = "boot_sig" if "unix_time" in named else "unix_time"
                    t_used = struct.unpack_from(
                        "<I", got[:512].ljust(512, b"\0"),
                        384 + sv.fields[src].offset)[0]
                    if len(named) < 2:
                        require(h.clock.now - 10 <= t_used <= h.clock.now,
                                "unix_time is not the time of the boot", det)
                else:
                    t_used = int(t_call)
                values = dict(options, unix_time=t_used, boot_sig=t_used,
                              root_chip=1)
                for k in named:
                    # named by the caller: whether the caller's or the boot's
                    # own value wins is not specified - take what was sent
                    f = sv.fields[k]
                    values[k] = f.unpack(got[:512].ljust(512, b"\0")[
                        384 + f.offset:384 + f.offset + f.size])
                    classes.add("names-" + k)
                conf = svstruct.pack_defaults(sv, values)[:128]
                expect = image[:384] + conf + image[512:]
                if got != expect:
                    diff = [j for j in range(min(len(got), len(expect)))
                            if got[j] != expect[j]]
                    where = diff[0] if diff else min(len(got), len(expect))
                    field = None
                    if 384 <= where < 512:
                        for name, f in sv.fields.items():
                            if f.offset <= where - 384 < f.offset + f.size:
                                field = name
                    raise Violation(
                        "the blocks do not reassemble to the boot image with "
                        "this call's options in the configuration area",
                        dict(det, first_difference=where, field=field,
                             got_length=len(got),
                             expected_length=len(expect),
                             options=options))
                if inner is not None and inner["done"]:
                    # the other board got the image with ITS options
                    classes.add("overlapping-boots")
                    nontrivial = True
                    got2 = b""
                    for dg in inner["listener"].datagrams[1:-1]:
                        w2 = _split(dg)[6]
                        got2 += struct.pack("<%dI" % len(w2 or ()),
                                            *(w2 or ()))
                    t2 = int(inner["t"])
                    conf2 = svstruct.pack_defaults(sv_bundled, dict(
                        inner["options"], unix_time=t2, boot_sig=t2,
                        root_chip=1))[:128]
                    require(got2 == image[:384] + conf2 + image[512:],
                            "a board booted while another boot was under "
                            "way did not get the image with its own options",
                            dict(det, options=inner["options"]))
                # returned structs describe the same values
                rsv = structs[b"sv"]
                for name, f in sv.fields.items():
                    want = values.get(name, f.default)
                    try:
                        with sut("returned struct definitions",
                                 (KeyError,)):
                            have = rsv[name.encode()].default
                    except KeyError:
                        raise Violation("the returned struct definitions "
                                        "lack a variable of the struct file",
                                        dict(det, field=name))
                    require(have == want, "the returned struct definitions "
                            "do not describe the values that were sent",
                            dict(det, field=name, got=have, expected=want))
                if not options and had_options:
                    nontrivial = True
                had_options = had_options or bool(options)
                classes.add(call["via"])
                classes.add(style)
    finally:
        shutil.rmtree(tmp, ignore_errors=True)
    return {"nontrivial": nontrivial, "classes": sorted(classes)}


CLAUSES = [
    Clause("histories", check_history, strategy=strat_history,
           rule="1-5 boots in one process (boot.boot and "
                "MachineController.boot), each with a board preset and/or "
                "arbitrary overrides passed by keyword, as sv_overrides, "
                "both, or through a dict the caller re-uses; images of "
                "512..32764 bytes incl. the bundled one; one call in six is "
                "suspended in one of its first sends while another board is "
                "booted with other options; non-trivial = a call with "
                "options is followed by a call without, or two boots "
                "overlap",
           examples={"quick": 600, "thorough": 3000},
           shards={"quick": 8, "thorough": 16},
           # every history starts in a process that has booted nothing yet
           isolate=True),
]
