"""C19 SpiNN-5 board geometry functions agree with the board tiling.

Finite domain, enumerated: machine sizes x root offsets x every chip x every
link, against the explicit 48-chip tile of vf.oracle.boardtile.
"""
import itertools

from vf.core import Clause, Violation, require, sut
from vf.oracle import boardtile as bt

PROPERTY_ID = "C19"
LEVEL = "exploration"
IMPORTS = ["rig.geometry", "rig.links"]
ASSUMPTIONS = [
    "the SpiNN-5 tile (rows of 5,6,7,8,7,6,5,4 chips, Ethernet chip bottom "
    "left) and the three-board 12x12 period with origins (0,0),(4,8),(8,4) "
    "are the trusted description of the hardware",
    "for non-wrapping (ragged) machines only chips whose board's Ethernet "
    "chip lies inside the rectangle are in the domain of "
    "spinn5_local_eth_coord",
]


def _sizes(tier):
    """(w, h, torus) triples."""
    mult = [12, 24, 36, 48]
    tori = [(w, h, True) for w in mult for h in mult]
    lim = 14 if tier == "quick" else 30
    ragged = [(w, h, False) for w in range(1, lim + 1)
              for h in range(1, lim + 1) if not (w % 12 == 0 and h % 12 == 0)]
    extra = [(w, h, False) for w in (37, 40, 47, 48) for h in (1, 8, 13, 47)]
    return tori + ragged + extra


def _big_sizes(tier):
    """Machines larger than 127 chips on a side (the documented chip
    co-ordinate range is 0-255); visited with a handful of root offsets."""
    big = [(132, 12, True), (12, 132, True), (252, 24, True), (24, 252, True),
           (144, 132, True), (200, 7, False), (9, 255, False),
           (256, 20, False), (130, 129, False)]
    if tier == "thorough":
        big += [(252, 252, True), (240, 132, True), (256, 256, False),
                (255, 129, False)]
    return big


def _roots(tier, torus):
    r = list(range(12))
    roots = [(x, y) for x in r for y in r]
    # offsets >= 12 must behave like their residues
    roots += [(12, 0), (0, 12), (13, 25), (23, 14), (40, 100)]
    return roots


def enum_boards(tier, shard, nshards):
    bt.self_check()
    i = 0
    for (w, h, torus) in _sizes(tier):
        for (rx, ry) in _roots(tier, torus):
            i += 1
            if i % nshards != shard:
                continue
            yield {"w": w, "h": h, "torus": torus, "rx": rx, "ry": ry}
    for (w, h, torus) in _big_sizes(tier):
        for (rx, ry) in [(0, 0), (4, 8), (11, 7), (3, 0), (13, 25)]:
            i += 1
            if i % nshards != shard:
                continue
            yield {"w": w, "h": h, "torus": torus, "rx": rx, "ry": ry}


def _root(rx, ry, style):
    """The root chip as the tail of an argument list: by position, by the
    documented keywords, or one of each."""
    style %= 3
    if rx == ry == 0 and style == 2:
        return (), {}                   # the default root
    if style == 0:
        return (rx, ry), {}
    if style == 1:
        return (), {"root_x": rx, "root_y": ry}
    return (rx,), {"root_y": ry}


def check_boards(case):
    from rig import geometry
    w, h, rx, ry, torus = (case["w"], case["h"], case["rx"], case["ry"],
                           case["torus"])
    wraps = False
    # --- Ethernet chip list
    with sut("spinn5_eth_coords"):
        ra, rk = _root(rx, ry, w + h + rx + ry)
        got = list(geometry.spinn5_eth_coords(w, h, *ra, **rk))
        # asking again (same arguments, in the same process) must give the
        # same answer - also when the first answer was only partly consumed
        part = geometry.spinn5_eth_coords(w, h, rx, ry)
        for _ in zip(range(1), part):
            pass
        again = list(geometry.spinn5_eth_coords(w, h, rx, ry))
    require(sorted(map(tuple, again)) == sorted(map(tuple, got)),
            "spinn5_eth_coords gives a different answer when asked a second "
            "time with the same arguments",
            {"first": sorted(map(tuple, got)),
             "second": sorted(map(tuple, again))})
    expect = set((x, y) for x in range(w) for y in range(h)
                 if bt.is_origin(x, y, rx, ry))
    require(len(got) == len(set(got)),
            "spinn5_eth_coords lists a chip twice", {"got": got})
    require(set(map(tuple, got)) == expect,
            "spinn5_eth_coords differs from the board origins inside the "
            "machine", {"got": sorted(got), "expected": sorted(expect),
                        "missing": sorted(expect - set(got)),
                        "extra": sorted(set(got) - expect)})
    # --- every chip
    n = 0
    for x in range(w):
        for y in range(h):
            ox, oy = bt.board_origin(x, y, rx, ry)
            bx, by = bt.board_coord(x, y, rx, ry)
            with sut("spinn5_chip_coord"):
                ra, rk = _root(rx, ry, x + 2 * y + rx)
                cc = geometry.spinn5_chip_coord(x, y, *ra, **rk)
            require(tuple(cc) == (bx, by),
                    "spinn5_chip_coord is not the offset from the board's "
                    "Ethernet chip",
                    {"chip": [x, y], "got": list(cc), "expected": [bx, by]})
            if torus:
                exp = (ox % w, oy % h)
                if (ox, oy) != exp:
                    wraps = True
            else:
                if not (0 <= ox < w and 0 <= oy < h):
                    continue     # board origin outside a ragged machine
                exp = (ox, oy)
            with sut("spinn5_local_eth_coord"):
                ra, rk = _root(rx, ry, x + y + ry)
                le = geometry.spinn5_local_eth_coord(x, y, w, h, *ra, **rk)
            n += 1
            require(tuple(le) == exp,
                    "spinn5_local_eth_coord is not the Ethernet chip of the "
                    "board containing the chip",
                    {"chip": [x, y], "got": list(le), "expected": list(exp)})
            require(exp in expect,
                    "local Ethernet chip is not in spinn5_eth_coords",
                    {"chip": [x, y], "eth": list(exp)})
    return {"nontrivial": wraps or (rx % 12, ry % 12) != (0, 0),
            "classes": ["torus" if torus else "ragged"] +
                       (["side>127"] if max(w, h) > 127 else []) + [
                        "root0" if (rx % 12, ry % 12) == (0, 0)
                        else "root-offset"] + (["wraps"] if wraps else [])}


def enum_fpga(tier, shard, nshards):
    roots = [(x, y) for x in range(12) for y in range(12)] + \
        [(12, 13), (25, 2), (100, 47)]
    for i, (rx, ry) in enumerate(roots):
        if i % nshards == shard:
            yield {"rx": rx, "ry": ry}


def check_fpga(case):
    from rig import geometry
    from rig.links import Links
    rx, ry = case["rx"], case["ry"]
    # two periods in each direction so every board position is met twice
    per_board = {}
    for x in range(rx, rx + 24):
        for y in range(ry, ry + 24):
            bx, by = bt.board_coord(x, y, rx, ry)
            for link in Links:
                with sut("spinn5_fpga_link"):
                    # the same chip is first asked about under another root
                    # (same root_x, other root_y and vice versa): an answer
                    # must not depend on the question before it
                    ry2, rx2 = (ry + 5) % 12, (rx + 7) % 12
                    other = geometry.spinn5_fpga_link(
                        x, y, link, *((rx, ry2) if (x + y) % 2 else
                                      (rx2, ry)))
                    ra, rk = _root(rx, ry, x + y + int(link))
                    got = geometry.spinn5_fpga_link(x, y, link, *ra, **rk)
                obx, oby = bt.board_coord(x, y, *((rx, ry2) if (x + y) % 2
                                                  else (rx2, ry)))
                require((other is not None) ==
                        bt.leaves_board(obx, oby, int(link)),
                        "spinn5_fpga_link reports an FPGA link exactly when "
                        "the link leaves the board: violated",
                        {"chip": [x, y], "link": int(link), "got": other,
                         "root": [rx, ry2] if (x + y) % 2 else [rx2, ry]})
                off = bt.leaves_board(bx, by, int(link))
                require((got is not None) == off,
                        "spinn5_fpga_link reports an FPGA link exactly when "
                        "the link leaves the board: violated",
                        {"chip": [x, y], "board_coord": [bx, by],
                         "link": int(link), "got": got, "leaves_board": off})
                if got is not None:
                    f, l = got
                    require(f in (0, 1, 2) and 0 <= l <= 15,
                            "FPGA link id out of range",
                            {"chip": [x, y], "link": int(link), "got": got})
                    origin = bt.board_origin(x, y, rx, ry)
                    per_board.setdefault(origin, {}).setdefault(
                        tuple(got), set()).add((bx, by, int(link)))
    for origin, ids in per_board.items():
        for ident, users in ids.items():
            require(len(users) == 1,
                    "two different board-edge links share one FPGA link id",
                    {"fpga_link": list(ident), "links": sorted(users)})
    return {"nontrivial": True,
            "classes": ["root-offset" if (rx % 12, ry % 12) != (0, 0)
                        else "root0"]}


def enum_dims(tier, shard, nshards):
    top = 3000 if tier == "quick" else 30000
    step = 250
    for i, lo in enumerate(range(0, top, step)):
        if i % nshards == shard:
            yield {"lo": lo, "hi": lo + step}


def check_dims(case):
    from rig import geometry
    nt = False
    for n in range(case["lo"], case["hi"]):
        try:
            with sut("standard_system_dimensions", (ValueError,)):
                got = geometry.standard_system_dimensions(n)
        except ValueError:
            require(n % 3 != 0 and n not in (0, 1),
                    "standard_system_dimensions rejects a valid board count",
                    {"n": n})
            continue
        if n == 0:
            exp = (0, 0)
        elif n == 1:
            exp = (8, 8)
        else:
            require(n % 3 == 0, "standard_system_dimensions accepts a board "
                    "count that is not a multiple of three", {"n": n,
                                                              "got": got})
            t = n // 3
            best = None
            for b in range(1, t + 1):
                if t % b == 0:
                    a = t // b
                    if a >= b and (best is None or a - b < best[0] - best[1]):
                        best = (a, b)
            exp = (12 * best[0], 12 * best[1])
            nt = True
        require(tuple(got) == exp, "standard_system_dimensions is not the "
                "squarest arrangement of three-board units",
                {"n": n, "got": list(got), "expected": list(exp)})
    return {"nontrivial": nt}


CLAUSES = [
    Clause("boards", check_boards, enumerate=enum_boards, exhaustive=True,
           rule="every (width, height, root offset) of the enumerated sizes; "
                "all chips of the machine are checked inside one case; "
                "non-trivial = root offset != 0 mod 12 or some board wraps "
                "around the machine edge",
           shards={"quick": 16, "thorough": 16}),
    Clause("fpga", check_fpga, enumerate=enum_fpga, exhaustive=True,
           rule="every root offset; all chips of a 24x24 window x 6 links "
                "per case",
           shards={"quick": 8, "thorough": 16}),
    Clause("dimensions", check_dims, enumerate=enum_dims, exhaustive=True,
           rule="board counts in blocks of 250; non-trivial = block holds a "
                "multiple of three > 1",
           shards={"quick": 4, "thorough": 16}),
]
