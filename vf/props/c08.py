"""C08 Bit-field keys are collision-free: fields never overlap or overflow.

Histories of field definitions, value assignments and layout assignments are
interpreted against the real BitField and against a model of the hierarchy.
"""
from hypothesis import strategies as st

from vf.core import Clause, Violation, require, sut

PROPERTY_ID = "C08"
LEVEL = "exploration"
IMPORTS = ["rig.bitfield"]
ASSUMPTIONS = [
    "scopes are a node of the hierarchy plus values for a subset of that "
    "node's own fields (the only shape the field tree represents; mixing a "
    "selector with a field living under another selector recurses forever "
    "and is outside the property's clauses)",
    "new field names are not already visible from the scope they are added "
    "to; start_at >= 0; explicit lengths >= 1",
    "a history ends at the first assign_fields() that raises, after one "
    "repetition of the refused call",
    "completeness is asserted when no field has an explicit position, "
    "assign_fields() is first called after all definitions and values, and "
    "the hierarchy is single-selector (all child scopes of a node are keyed "
    "by one and the same field); multi-selector hierarchies are the recorded "
    "finding K1 and are counted as excluded there",
    "complete assignments are enumerated from the values used in the history "
    "plus 0, capped at 150 per layout",
]

NAMES = ["a", "b", "c", "d", "e", "f", "g", "h"]
TAGS = ["t1", "t2", "t3"]


def bitlen(v):
    return max(1, int(v).bit_length())


class Node(object):
    def __init__(self, req, parent=None, key=None):
        self.req = dict(req)         # full path requirements {ident: value}
        self.parent = parent
        self.key = key               # ((ident, value), ...) from the parent
        self.fields = []             # [field dict] in definition order
        self.children = {}           # key tuple -> Node

    def field(self, name):
        for f in self.fields:
            if f["name"] == name:
                return f
        return None


class Model(object):
    def __init__(self, length):
        self.length = length
        self.root = Node({})
        self.nodes = [self.root]
        self.any_explicit_pos = False
        self.laid_out = False
        self.defs_after_layout = False
        self.strict = False

    def compatible(self, node, values):
        return all(values.get(i, v) == v for i, v in node.req.items())

    def potential_fields(self, values):
        for n in self.nodes:
            if self.compatible(n, values):
                for f in n.fields:
                    yield n, f

    def enabled_fields(self, values):
        for n in self.nodes:
            if all(values.get(i, None) == v for i, v in n.req.items()) and \
                    all(i in values for i in n.req):
                for f in n.fields:
                    yield n, f

    def selector_chain(self, node):
        """(owner node, field) of every requirement on the path to node."""
        out = []
        while node.parent is not None:
            for ident, _ in node.key:
                out.append(node.parent.field(ident))
            node = node.parent
        return out

    def single_selector(self):
        for n in self.nodes:
            idents = set()
            for key in n.children:
                if len(key) != 1:
                    return False
                idents.add(key[0][0])
            if len(idents) > 1:
                return False
        return True


# ------------------------------------------------------------------ strategy

def small_value():
    return st.one_of(st.integers(0, 3), st.integers(0, 20),
                     st.sampled_from([1, 2, 3, 4, 7, 8, 15, 16, 255, 256]))


def big_value():
    return st.one_of(
        small_value(),
        st.integers(0, 63).map(lambda k: (1 << k) - 1),
        st.integers(0, 63).map(lambda k: 1 << k),
        st.integers(0, (1 << 50)))


@st.composite
def strat_history(draw, tier, complete_only=False):
    big = tier == "thorough"
    length = draw(st.one_of(st.integers(1, 12), st.integers(1, 64),
                            st.sampled_from([8, 16, 32, 64])))
    n_steps = draw(st.integers(1, 60 if big else 25))
    steps = []
    for _ in range(n_steps):
        kind = draw(st.sampled_from(
            ["add", "add", "add", "value", "value", "assign"]
            if not complete_only else ["add", "add", "add", "value"]))
        if kind == "add":
            explicit_pos = (not complete_only) and draw(st.integers(0, 3)) == 0
            steps.append({
                "op": "add", "node": draw(st.integers(0, 40)),
                "pick": draw(st.lists(st.tuples(st.integers(0, 7),
                                                small_value()),
                                      max_size=2)),
                "name": draw(st.integers(0, 7)),
                # keep the drawn name even if a compatible scope already has
                # a field of that name (the definition must then be refused
                # and leave nothing behind)
                "dup": draw(st.integers(0, 5)) == 0,
                "length": draw(st.one_of(st.none(), st.none(),
                                         st.integers(1, 5),
                                         st.integers(1, length))),
                "start_at": draw(st.one_of(st.integers(0, length + 1),
                                           st.integers(-3, length + 1)))
                if explicit_pos else None,
                # an explicit position may also be given relative to a field
                # that already has one: [k, d] = d bits above the current
                # top of the k-th explicitly positioned field
                "start_rel": draw(st.one_of(
                    st.none(), st.tuples(st.integers(0, 7),
                                         st.integers(-1, 3)).map(list)))
                if explicit_pos else None,
                "tags": draw(st.one_of(
                    st.none(), st.none(),
                    st.lists(st.sampled_from(TAGS), max_size=2)
                    .map(" ".join),
                    st.lists(st.sampled_from(TAGS), max_size=2),
                    # a set object of the caller's, re-used for several calls
                    st.lists(st.sampled_from(TAGS), min_size=1, max_size=2,
                             unique=True).map(
                        lambda l: {"shared_set": sorted(l)}),
                    st.lists(st.sampled_from(TAGS), min_size=1, max_size=2,
                             unique=True).map(
                        lambda l: {"shared_set": sorted(l)})))})
        elif kind == "value":
            steps.append({
                "op": "value", "node": draw(st.integers(0, 40)),
                "values": draw(st.lists(
                    st.tuples(st.integers(0, 7),
                              big_value() if draw(st.integers(0, 4)) == 0
                              else small_value()),
                    min_size=1, max_size=3))})
        else:
            steps.append({"op": "assign"})
    steps.append({"op": "assign"})
    case = {"length": length, "steps": steps}
    if complete_only:
        case["slack"] = draw(st.sampled_from([0, 0, 0, 1, 3]))
    return case


def strat_free(tier):
    return strat_history(tier, False)


def strat_complete(tier):
    return strat_history(tier, True)


# --------------------------------------------------------------- interpreter

def _scope(model, bf, node, extra):
    """Values of the scope = node's path + extra; returns (values, scope)."""
    values = dict(node.req)
    values.update(extra)
    return values


def _own_values(node, pick):
    """Turn drawn (index, value) pairs into values for the node's own fields
    (each field at most once)."""
    out = {}
    if not node.fields:
        return out
    for idx, val in pick:
        f = node.fields[idx % len(node.fields)]
        if f["name"] not in out:
            out[f["name"]] = val
    return out


class DryBitField(object):
    """Stands in for the bit field in a model-only pass (used to find the
    width a history needs before running it for real)."""

    def __call__(self, **kw):
        return self

    def add_field(self, *a, **kw):
        pass


def run_history(case, check_complete=False, strict=False, dry=False,
                length=None, shared_pool=None):
    from rig.bitfield import BitField
    length = length or case["length"]
    model = Model(length)
    if dry:
        bf = DryBitField()
    else:
        with sut("BitField()"):
            bf = BitField(length)
    model.strict = strict
    model.dry = dry
    # caller-owned tag sets: per history by default; C17 passes one pool per
    # process (a module-level constant of the user's program)
    model.shared_sets = shared_pool if shared_pool is not None else {}
    stats = {"adds": 0, "rejected_adds": 0, "layouts": 0, "excluded": 0,
             "max_depth": 0, "filled": False, "assignments": 0}
    for step in case["steps"]:
        if step["op"] == "add":
            _do_add(model, bf, step, stats)
        elif step["op"] == "value":
            _do_value(model, bf, step, stats)
        elif not dry:
            ok = _do_assign(model, bf, stats, check_complete)
            if not ok:
                break
    return model, stats


def _call_scope(bf, values, what):
    """bf(**values); -> scope or None if rig rejects with ValueError."""
    try:
        with sut(what, (ValueError,)):
            return bf(**values) if values else bf
    except ValueError:
        return None


def _too_large(model, values):
    """Some value does not fit a field whose length is known -> must be
    rejected."""
    for n, f in model.enabled_fields(values):
        if f["name"] in values and f["length"] is not None and \
                values[f["name"]] >= (1 << f["length"]):
            return f
    return None


def _do_value(model, bf, step, stats):
    node = model.nodes[step["node"] % len(model.nodes)]
    values = _scope(model, bf, node, _own_values(node, step["values"]))
    bad = _too_large(model, values)
    if isinstance(bf, DryBitField):
        scope = None if bad is not None else bf
    else:
        scope = _call_scope(bf, values, "bit field scope")
    if bad is not None:
        require(scope is None, "a value that does not fit its field's length "
                "is accepted", {"field": bad["name"], "length": bad["length"],
                                "values": values})
        return
    if scope is None:
        return
    for n, f in model.enabled_fields(values):
        if f["name"] in values:
            f["max"] = max(f["max"], values[f["name"]])
            f["seen"].add(values[f["name"]])


def _do_add(model, bf, step, stats):
    node = model.nodes[step["node"] % len(model.nodes)]
    own = _own_values(node, step["pick"])
    values = _scope(model, bf, node, own)
    if _too_large(model, values) is not None:
        return
    visible = set(f["name"] for n, f in model.potential_fields(values))
    name = NAMES[step["name"] % len(NAMES)]
    duplicate = False
    if name in visible:
        if step.get("dup"):
            duplicate = True
        else:
            free = [n for n in NAMES if n not in visible]
            name = free[0] if free else "f%d" % stats["adds"]
    scope = _call_scope(bf, values, "bit field scope")
    if scope is None:
        return
    # the scope call counts as a use of these values
    for n, f in model.enabled_fields(values):
        if f["name"] in values:
            f["max"] = max(f["max"], values[f["name"]])
            f["seen"].add(values[f["name"]])
    ln, start = step["length"], step["start_at"]
    if duplicate:
        start = None          # so that the name is the only possible clash
    rel = step.get("start_rel")
    if start is not None and rel:
        anchored = [f for n in model.nodes for f in n.fields
                    if f["start"] is not None]
        if anchored:
            f = anchored[rel[0] % len(anchored)]
            top = f["start"] + (f["length"] if f["length"] is not None
                                else max(1, f["max"].bit_length()))
            start = top + rel[1]
    must_reject = None
    if start is not None:
        if start < 0 or start >= model.length or \
                start + (ln or 1) > model.length:
            must_reject = "does not fit inside the bit field"
        else:
            for n, f in model.potential_fields(values):
                if f["start"] is not None and f["length"] is not None and \
                        ln is not None:
                    if start < f["start"] + f["length"] and \
                            f["start"] < start + ln:
                        must_reject = "overlaps field %r" % f["name"]
    tags = step["tags"]
    shared = None
    if isinstance(tags, dict):
        # the caller keeps one set object per tag combination and passes it
        # to every definition that uses this combination
        key = tuple(tags["shared_set"])
        shared = model.shared_sets.setdefault(key, set(key))
        tags = shared
    try:
        with sut("add_field", (ValueError,)):
            scope.add_field(name, length=ln, start_at=start, tags=tags)
        accepted = True
    except ValueError:
        accepted = False
    if shared is not None:
        require(shared == set(key), "add_field modified the set of tags "
                "passed by the caller", {"passed": sorted(key),
                                         "now": sorted(shared)})
        tags = sorted(key)
    stats["adds"] += 1
    if duplicate:
        require(getattr(model, "dry", False) or not accepted,
                "a second field of the same name in a "
                "compatible scope is accepted", {"name": name,
                                                 "scope": values})
        stats["rejected_adds"] += 1
        return
    if must_reject is not None:
        require(not accepted, "an explicit field definition that %s is "
                "accepted" % must_reject,
                {"name": name, "length": ln, "start_at": start,
                 "scope": values})
    if not accepted:
        # without an explicit position a definition can only clash by name,
        # and the name was chosen among those no co-present field has
        require(start is not None, "a field definition without explicit "
                "position whose name no field of a compatible scope has is "
                "rejected", {"name": name, "length": ln, "scope": values})
        stats["rejected_adds"] += 1
        return
    tagset = set(tags.split()) if isinstance(tags, str) else set(tags or [])
    f = {"name": name, "length": ln, "start": start, "tags": set(tagset),
         "max": 1, "seen": set(), "explicit_pos": start is not None,
         "explicit_len": ln is not None, "declared": ln}
    if start is not None:
        model.any_explicit_pos = True
    if model.laid_out:
        model.defs_after_layout = True
    if own:
        key = tuple((g["name"], own[g["name"]]) for g in node.fields
                    if g["name"] in own)
        child = node.children.get(key)
        if child is None:
            child = Node(values, node, key)
            node.children[key] = child
            model.nodes.append(child)
        target = child
    else:
        target = node
    target.fields.append(f)
    for g in model.selector_chain(target):
        g["tags"].update(tagset)
    depth = 0
    n = target
    while n.parent is not None:
        depth += 1
        n = n.parent
    stats["max_depth"] = max(stats["max_depth"], depth)


def _complete_assignments(model, cap=150):
    """Enumerate complete value assignments reachable in the model."""
    out = []

    def candidates(node, f):
        vals = set(f["seen"]) | {0}
        for key in node.children:
            for ident, v in key:
                if ident == f["name"]:
                    vals.add(v)
        if f["length"] is not None:
            vals = set(v for v in vals if v < (1 << f["length"]))
            vals.add((1 << f["length"]) - 1)
        return sorted(vals)[:4] + sorted(vals)[-1:]

    def expand(pending, values):
        # pending: list of nodes whose fields still need values
        if len(out) >= cap:
            return
        if not pending:
            out.append(dict(values))
            return
        node = pending[0]
        rest = pending[1:]

        def choose(i, vals):
            if len(out) >= cap:
                return
            if i == len(node.fields):
                enabled = [c for key, c in node.children.items()
                           if all(vals.get(k) == v for k, v in key)]
                expand(rest + enabled, vals)
                return
            f = node.fields[i]
            for v in sorted(set(candidates(node, f))):
                nv = dict(vals)
                nv[f["name"]] = v
                choose(i + 1, nv)
        choose(0, values)
    expand([model.root], {})
    return out


def _expected_width(model):
    """max over complete assignments of the summed field widths."""
    def width(f):
        return f["declared"] if f["declared"] is not None else bitlen(f["max"])

    def node_width(node):
        own = sum(width(f) for f in node.fields)
        # children with mutually exclusive keys: take the max per selector set;
        # compatible children (different selectors) add up
        groups = {}
        for key, child in node.children.items():
            idents = tuple(sorted(i for i, _ in key))
            groups.setdefault(idents, []).append(node_width(child))
        return own + sum(max(ws) for ws in groups.values())
    return node_width(model.root)


def _do_assign(model, bf, stats, check_complete):
    first_layout = not model.laid_out
    premise = (check_complete and first_layout and
               not model.any_explicit_pos)
    try:
        with sut("assign_fields", (ValueError,)):
            bf.assign_fields()
    except ValueError as e:
        if premise and _expected_width(model) <= model.length:
            if model.single_selector() or model.strict:
                raise Violation(
                    "assign_fields() fails although no field is explicitly "
                    "positioned and the widths of the fields that can be "
                    "present together never exceed the bit field's length",
                    {"error": str(e), "length": model.length,
                     "needed": _expected_width(model),
                     "fields": _dump(model)})
            stats["excluded"] += 1
        # the program tries again (or carries on using the bit field after
        # logging the error): the same definitions are refused again, or -
        # should the second attempt return - the layout it reports must be
        # a valid one like any other
        try:
            with sut("assign_fields (again, after a refusal)", (ValueError,)):
                bf.assign_fields()
        except ValueError:
            stats["refused_twice"] = stats.get("refused_twice", 0) + 1
            return False
        stats["layouts"] += 1
        model.laid_out = True
        _verify_layout(model, bf, stats)
        return False
    stats["layouts"] += 1
    model.laid_out = True
    _verify_layout(model, bf, stats)
    return True


def _dump(model):
    return [{"scope": n.req, "fields": [
        dict((k, (sorted(v) if isinstance(v, set) else v))
             for k, v in f.items()) for f in n.fields]} for n in model.nodes]


def _verify_layout(model, bf, stats):
    from rig.bitfield import UnknownTagError
    L = model.length
    assignments = _complete_assignments(model)
    stats["assignments"] += len(assignments)
    keymasks = []
    kept = model.__dict__.setdefault("kept", {})
    for values in assignments:
        # a program keeps the objects it derived earlier and asks them again
        # after further definitions and layouts: half of the assignments are
        # judged through the object made for them at an earlier layout
        key = tuple(sorted(values.items()))
        scope = kept.get(key) if sum(values.values()) % 2 == 0 else None
        if scope is None:
            scope = _call_scope(bf, values, "bit field scope")
            if scope is not None:
                kept[key] = scope
        else:
            stats["reused_objects"] = stats.get("reused_objects", 0) + 1
        enabled = list(model.enabled_fields(values))
        fits = all(values[f["name"]] < (1 << bitlen(max(f["max"], 1)))
                   or f["length"] is not None for n, f in enabled)
        if scope is None:
            # only acceptable if some value does not fit a laid out field
            bad = None
            for n, f in enabled:
                with sut("get_location_and_length"):
                    probe = bf(**dict((k, v) for k, v in values.items()
                                      if k in n.req))
                    s, ln = probe.get_location_and_length(f["name"])
                if values[f["name"]] >= (1 << ln):
                    bad = f
            require(bad is not None, "a complete assignment of values that "
                    "fit their fields is rejected", {"values": values})
            continue
        ranges = []
        total_mask = 0
        value = 0
        for n, f in enabled:
            with sut("get_location_and_length"):
                s, ln = scope.get_location_and_length(f["name"])
            det = {"field": f["name"], "scope": n.req, "start": s,
                   "length": ln, "bit_field_length": L}
            require(0 <= s and s + ln <= L and ln >= 1, "a field lies "
                    "outside the bit field", det)
            if f["declared"] is not None:
                require(ln == f["declared"], "a field does not have its "
                        "declared length", dict(det, declared=f["declared"]))
            if f["explicit_pos"]:
                require(s == f["start"], "a field is not at its declared "
                        "position", dict(det, declared=f["start"]))
            require(f["max"] < (1 << ln), "a field is too narrow for the "
                    "largest value it was given", dict(det, max=f["max"]))
            f["length"], f["start"] = ln, s
            for (s2, l2, name2) in ranges:
                require(s + ln <= s2 or s2 + l2 <= s, "two fields that can "
                        "be present together overlap",
                        dict(det, other=name2, other_start=s2,
                             other_length=l2, values=values))
            ranges.append((s, ln, f["name"]))
            bits = ((1 << ln) - 1) << s
            total_mask |= bits
            value |= values[f["name"]] << s
            with sut("get_value(field=)"):
                fv = scope.get_value(field=f["name"])
                fm = scope.get_mask(field=f["name"])
            require(fv == values[f["name"]] << s and fm == bits and
                    (fv >> s) & ((1 << ln) - 1) == values[f["name"]],
                    "a field's value cannot be read back from the key at its "
                    "reported position", dict(det, value=values[f["name"]],
                                              got=fv, mask=fm))
            with sut("get_tags"):
                tags = scope.get_tags(f["name"])
            require(set(tags) == f["tags"], "a field's tags are not its own "
                    "plus those of the fields depending on it",
                    dict(det, got=sorted(tags), expected=sorted(f["tags"])))
            if isinstance(tags, set):
                # what the caller does with the set it was given is its own
                # business
                tags.add("callers_own_note")
                tags.discard(sorted(f["tags"])[0] if f["tags"] else "x")
            if s + ln == L:
                stats["filled"] = True
        with sut("get_value/get_mask"):
            k = scope.get_value()
            m = scope.get_mask()
        require(k == value, "get_value() is not the OR of the fields' "
                "values", {"values": values, "got": k, "expected": value})
        require(m == total_mask, "get_mask() is not the union of the present "
                "fields' bits", {"values": values, "got": m,
                                 "expected": total_mask})
        for t in TAGS:
            exp = 0
            for n, f in enabled:
                if t in f["tags"]:
                    exp |= ((1 << f["length"]) - 1) << f["start"]
            try:
                with sut("get_mask(tag=)", (UnknownTagError,)):
                    got = scope.get_mask(tag=t)
            except UnknownTagError:
                got = None
            require((got or 0) == exp and (got is None) == (exp == 0),
                    "get_mask(tag) is not the union of the tag's fields",
                    {"tag": t, "values": values, "got": got, "expected": exp})
        # tagged fields' requirement chains are tagged
        for n, f in enabled:
            for g in model.selector_chain(n):
                require(f["tags"] <= g["tags"], "a field's tag is missing "
                        "from a field it depends on", {"field": f["name"],
                                                       "parent": g["name"]})
        keymasks.append((k, m, values))
    for i in range(len(keymasks)):
        k1, m1, v1 = keymasks[i]
        for j in range(i + 1, len(keymasks)):
            k2, m2, v2 = keymasks[j]
            if v1 == v2:
                continue
            require(k1 & m2 != k2 & m1, "two different complete value "
                    "assignments produce key/mask pairs that match each "
                    "other", {"a": v1, "b": v2, "key_a": k1, "mask_a": m1,
                              "key_b": k2, "mask_b": m2})


def _outcome(model, stats):
    nfields = sum(len(n.fields) for n in model.nodes)
    return {"nontrivial": stats["layouts"] > 0 and
            ((stats["max_depth"] >= 1 and nfields >= 3) or stats["filled"]),
            "excluded": stats["excluded"],
            "classes": ["depth%d" % min(stats["max_depth"], 3)] +
                       (["filled-to-last-bit"] if stats["filled"] else []) +
                       (["layout-ok"] if stats["layouts"] else
                        ["layout-failed"]) +
                       (["explicit-positions"] if model.any_explicit_pos
                        else []) +
                       (["refused-twice"] if stats.get("refused_twice")
                        else []) +
                       (["multi-selector"] if not model.single_selector()
                        else [])}


def check_history(case):
    model, stats = run_history(case, False)
    return _outcome(model, stats)


def _tight_length(case):
    """Length = width the history needs (model-only pass) + drawn slack."""
    dry, _ = run_history(case, dry=True, length=4096)
    return max(1, _expected_width(dry) + case.get("slack", 0))


def check_complete(case):
    model, stats = run_history(case, True, length=_tight_length(case))
    out = _outcome(model, stats)
    out["classes"].append("slack%d" % min(case.get("slack", 0), 2))
    return out


def check_complete_any(case):
    """Completeness asserted on every hierarchy, multi-selector ones
    included.  Not run in generated search: it replays the recorded finding
    K1 (first-fit fragmentation with two selectors)."""
    model, stats = run_history(case, True, strict=True,
                               length=_tight_length(case))
    return _outcome(model, stats)


CLAUSES = [
    Clause("histories", check_history, strategy=strat_free,
           rule="histories of add_field (automatic and explicit lengths and "
                "positions, tags, re-used names in sibling scopes) / value "
                "assignment / assign_fields on bit fields of 1-64 bits; after "
                "each successful layout every enumerated complete assignment "
                "is checked; non-trivial = a layout succeeded on a hierarchy "
                "with >= 2 levels and >= 3 fields, or a field ends on the "
                "last bit",
           examples={"quick": 800, "thorough": 12000},
           shards={"quick": 8, "thorough": 16}),
    Clause("completeness", check_complete, strategy=strat_complete,
           rule="as 'histories' without explicit positions and with a single "
                "final assign_fields(): it must succeed whenever the summed "
                "widths of co-present fields fit (single-selector "
                "hierarchies; multi-selector ones counted as excluded)",
           examples={"quick": 800, "thorough": 12000},
           shards={"quick": 8, "thorough": 16}),
    Clause("completeness-any", check_complete_any, strategy=strat_complete,
           rule="replay-only clause for the recorded finding K1 "
                "(completeness on multi-selector hierarchies)",
           examples={"quick": 0, "thorough": 0}),
]
