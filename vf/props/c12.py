"""C12 Flood-fill region list selects exactly the requested chips and cores."""
from hypothesis import strategies as st

from vf.core import Clause, require, sut

PROPERTY_ID = "C12"
LEVEL = "exploration"
IMPORTS = ["rig.machine_control.regions"]
ASSUMPTIONS = [
    "meaning of a region word (from 'Managing Big SpiNNaker Machines' as "
    "quoted in regions.py): bits 31:24 x, 23:18 y, 17:16 level L; the word "
    "selects, inside the 4^(4-L)-chip-wide block containing (x, y), the "
    "sub-blocks (width 4^(3-L)) whose bit sx + 4*sy is set in bits 15:0",
    "core numbers 0..17, chip coordinates 0..255",
]


def expand(region, coremask, into):
    """Add the cores selected by (region, coremask) to `into`
    ({(x, y): {core: multiplicity}})."""
    level = (region >> 16) & 3
    sub = 4 ** (3 - level)
    blk = 4 * sub
    bx = ((region >> 24) & 0xff) & ~(blk - 1)
    by = ((region >> 16) & 0xfc) & ~(blk - 1)
    cores = [c for c in range(32) if coremask & (1 << c)]
    for bit in range(16):
        if region & (1 << bit):
            ox = bx + (bit % 4) * sub
            oy = by + (bit // 4) * sub
            for x in range(ox, ox + sub):
                for y in range(oy, oy + sub):
                    d = into.setdefault((x, y), {})
                    for c in cores:
                        d[c] = d.get(c, 0) + 1


def well_formed(region, coremask):
    level = (region >> 16) & 3
    blk = 4 ** (4 - level)
    x = (region >> 24) & 0xff
    y = (region >> 16) & 0xfc
    if region >> 32 or region < 0:
        return "region word wider than 32 bits"
    if x & (blk - 1) & 0xff or y & (blk - 1) & 0xff:
        return "region base not aligned to its level"
    if region & 0xffff == 0:
        return "no block bit set"
    if coremask <= 0 or coremask >> 18:
        return "core mask empty or wider than 18 bits"
    return None


# ------------------------------------------------------------------ generator

CORE_POOL = [0, 1, 2, 3, 16, 17]


def cores_strategy():
    return st.one_of(
        st.sets(st.sampled_from(CORE_POOL), min_size=1, max_size=3),
        st.sets(st.integers(0, 17), min_size=1, max_size=18),
        st.just(set(range(18))),
    ).map(sorted)


def piece_strategy(tier, limit=256):
    """Pieces inside the square [0, limit)^2: real machines start at chip
    (0, 0), so most requests sit in the corner at the origin and fill whole
    aligned blocks there."""
    levels = [s for s in ([4, 16] if tier == "quick" else [4, 16, 64])
              if s <= limit]
    coord = st.integers(0, limit - 1)

    def block(size):
        n = limit // size
        return st.fixed_dictionaries({
            "kind": st.just("block"), "size": st.just(size),
            "bx": st.integers(0, n - 1).map(lambda i: i * size),
            "by": st.integers(0, n - 1).map(lambda i: i * size),
            "cores": cores_strategy(),
            # hole: nothing, one chip missing, one core missing on one chip
            "hole": st.one_of(
                st.none(),
                st.tuples(st.integers(0, size - 1), st.integers(0, size - 1),
                          st.one_of(st.none(), st.integers(0, 17)))),
        })
    sparse = st.fixed_dictionaries({
        "kind": st.just("chip"), "x": coord, "y": coord,
        "cores": cores_strategy()})
    rect = st.fixed_dictionaries({
        "kind": st.just("rect"), "x": coord, "y": coord,
        "w": st.integers(1, 21), "h": st.integers(1, 21),
        "cores": cores_strategy()})
    # a chip listed with no cores at all (build_application_map produces
    # this for a vertex without cores)
    empty = st.fixed_dictionaries({
        "kind": st.just("chip"), "x": coord, "y": coord,
        "cores": st.just([])})
    options = [sparse, rect, empty] + [block(s) for s in levels]
    if tier == "thorough" and limit >= 64:
        options.append(block(64))
    if tier == "quick" and limit == 64:
        # the whole 64x64 corner block (few cores: 4096 chips per piece)
        options.append(st.fixed_dictionaries({
            "kind": st.just("block"), "size": st.just(64), "bx": st.just(0),
            "by": st.just(0), "cores": st.sets(st.sampled_from(CORE_POOL),
                                               min_size=1, max_size=2)
            .map(sorted),
            "hole": st.one_of(st.none(), st.none(), st.tuples(
                st.integers(0, 63), st.integers(0, 63),
                st.one_of(st.none(), st.integers(0, 17))))}))
    if tier == "thorough" and limit == 256:
        options.append(st.fixed_dictionaries({
            "kind": st.just("block"), "size": st.just(256), "bx": st.just(0),
            "by": st.just(0), "cores": st.sets(st.sampled_from(CORE_POOL),
                                               min_size=1, max_size=1)
            .map(sorted),
            "hole": st.one_of(st.none(), st.tuples(
                st.integers(0, 255), st.integers(0, 255),
                st.one_of(st.none(), st.integers(0, 17))))}))
    return st.one_of(*options)


def strat_targets(tier):
    def with_limit(limit):
        return st.fixed_dictionaries({
            "pieces": st.lists(piece_strategy(tier, limit), min_size=1,
                               max_size=5),
            "limit": st.just(limit),
            "container": st.sampled_from(["set", "set", "list", "tuple",
                                          "frozenset", "reversed-list"]),
            "dict": st.sampled_from(["dict", "ordered-reversed",
                                     "defaultdict"])})
    return st.one_of(
        st.sampled_from([256, 256, 256, 4, 8, 16, 16, 32, 64, 64,
                         128]).flatmap(with_limit),
        st.sampled_from([256, 16, 8]).flatmap(neighbours))


@st.composite
def neighbours(draw, limit):
    """A handful of chips in one 4x4 block (or two adjacent ones) that use
    overlapping but unequal sets of a few cores: more (region, mask) pairs
    come out of the tree than there are chips."""
    bx = draw(st.integers(0, limit // 4 - 1)) * 4
    by = draw(st.integers(0, limit // 4 - 1)) * 4
    span = draw(st.sampled_from([4, 4, 8]))
    pool = draw(st.sampled_from([[1, 2, 3], [0, 1, 2, 3], [1, 16, 17],
                                 [1, 2, 3, 4, 5, 6]]))
    pieces = []
    for _ in range(draw(st.integers(2, 5))):
        pieces.append({
            "kind": "chip",
            "x": min(limit - 1, bx + draw(st.integers(0, span - 1))),
            "y": min(limit - 1, by + draw(st.integers(0, span - 1))),
            "cores": sorted(draw(st.sets(st.sampled_from(pool), min_size=1,
                                         max_size=3)))})
    return {"pieces": pieces, "limit": limit,
            "container": draw(st.sampled_from(["set", "list", "tuple",
                                               "reversed-list"])),
            "dict": draw(st.sampled_from(["dict", "ordered-reversed",
                                          "defaultdict"]))}


def build_targets(case):
    targets = {}
    for p in case["pieces"]:
        cores = set(p["cores"])
        if p["kind"] == "chip":
            # (an empty core list still lists the chip)
            targets.setdefault((p["x"], p["y"]), set()).update(cores)
        elif p["kind"] == "rect":
            for x in range(p["x"], min(256, p["x"] + p["w"])):
                for y in range(p["y"], min(256, p["y"] + p["h"])):
                    targets.setdefault((x, y), set()).update(cores)
        else:
            hole = p["hole"]
            for x in range(p["bx"], p["bx"] + p["size"]):
                for y in range(p["by"], p["by"] + p["size"]):
                    cs = cores
                    if hole is not None and (x - p["bx"], y - p["by"]) == \
                            (hole[0], hole[1]):
                        if hole[2] is None:
                            continue
                        cs = cores - {hole[2]}
                        if not cs:
                            continue
                    targets.setdefault((x, y), set()).update(cs)
    return targets


def check_targets(case):
    from rig.machine_control import regions
    targets = build_targets(case)
    conv = {"set": set, "list": sorted, "tuple": lambda v: tuple(sorted(v)),
            "frozenset": frozenset,
            "reversed-list": lambda v: sorted(v, reverse=True)}[
        case.get("container", "set")]
    items = sorted(targets.items())
    if case.get("dict") == "ordered-reversed":
        items = items[::-1]
    given = dict((k, conv(v)) for k, v in items)
    if case.get("dict") == "defaultdict":
        # what build_application_map returns for an application
        import collections
        given = collections.defaultdict(set, given)
    with sut("compress_flood_fill_regions"):
        out = list(regions.compress_flood_fill_regions(given))
    require(set(given) == set(targets) and
            all(set(given[k]) == set(targets[k]) for k in targets),
            "compress_flood_fill_regions changed the targets it was given",
            {"added": sorted(map(list, set(given) - set(targets)))[:8]})
    got = {}
    levels = set()
    for pair in out:
        require(len(pair) == 2, "not a (region, core mask) pair",
                {"pair": repr(pair)})
        region, mask = int(pair[0]), int(pair[1])
        err = well_formed(region, mask)
        require(err is None, "malformed region word: %s" % err,
                {"region": hex(region), "mask": hex(mask)})
        levels.add((region >> 16) & 3)
        expand(region, mask, got)
    keys = [(int(r), int(m)) for r, m in out]
    require(all(a < b for a, b in zip(keys, keys[1:])),
            "pairs are not in strictly increasing (region, mask) order",
            {"pairs": [[hex(r), hex(m)] for r, m in keys][:40]})
    problems = []
    for chip in set(got) | set(targets):
        want = targets.get(chip, set())
        have = got.get(chip, {})
        for c in set(want) | set(have):
            n = have.get(c, 0)
            if (c in want) != (n == 1):
                problems.append([list(chip), c,
                                 "requested" if c in want else "not requested",
                                 "selected %d times" % n])
                if len(problems) > 8:
                    break
    require(not problems, "the region list does not select exactly the "
            "requested cores once each", {"problems": problems,
                                          "pairs": [[hex(r), hex(m)]
                                                    for r, m in keys][:40]})
    masks = set(m for _, m in keys)
    partial = bool(levels - {3}) and (3 in levels or len(masks) > 1)
    crowded = len(keys) > len(targets)
    return {"nontrivial": partial or crowded,
            "classes": ["level%d" % l for l in sorted(levels)] +
                       (["partial-collapse"] if partial else []) +
                       (["more-pairs-than-chips"] if crowded else []) +
                       ["corner%d" % case.get("limit", 256)]}


# -------------------------------------------------- single-chip region words

def enum_chip_words(tier, shard, nshards):
    for x in range(256):
        if x % nshards == shard:
            yield {"x": x}


def check_chip_words(case):
    from rig.machine_control import regions
    x = case["x"]
    for y in range(256):
        for level in (3, 2, 1, 0):
            with sut("get_region_for_chip"):
                if level == 3 and y % 2:
                    r = regions.get_region_for_chip(x, y)   # default level
                else:
                    r = regions.get_region_for_chip(x, y, level)
            err = well_formed(r, 1)
            require(err is None, "malformed region word: %s" % err,
                    {"x": x, "y": y, "level": level, "region": hex(r)})
            require((r >> 16) & 3 == level, "level bits wrong",
                    {"x": x, "y": y, "level": level, "region": hex(r)})
            size = 4 ** (3 - level)
            ox, oy = x - x % size, y - y % size
            if level <= 1:
                # expansion of 64x64 blocks for every chip is too slow: judge
                # the word's fields (block base, single block bit) directly
                blk = 4 * size
                bit = ((x % blk) // size) + 4 * ((y % blk) // size)
                require((r >> 24) & 0xff == x - x % blk and
                        (r >> 16) & 0xfc == y - y % blk and
                        r & 0xffff == 1 << bit,
                        "single-chip region word does not select exactly the "
                        "enclosing block of its level",
                        {"x": x, "y": y, "level": level, "region": hex(r)})
                continue
            got = {}
            expand(r, 1, got)
            want = set((i, j) for i in range(ox, ox + size)
                       for j in range(oy, oy + size))
            if level == 3:
                want = {(x, y)}
            require(set(got) == want, "single-chip region word does not "
                    "select exactly the enclosing block of its level",
                    {"x": x, "y": y, "level": level, "region": hex(r),
                     "selected": len(got), "expected": len(want)})
    return {"nontrivial": True}


# ------------------------------------------- a tree filled in several rounds

def strat_rounds(tier):
    def with_limit(limit):
        return st.fixed_dictionaries({
            "limit": st.just(limit),
            # cores that are in the tree already are added again (a caller
            # that merges overlapping target sets need not filter them)
            "readd": st.booleans(),
            "rounds": st.lists(st.lists(piece_strategy("quick", limit),
                                        min_size=1, max_size=3),
                               min_size=2, max_size=4)})
    return st.sampled_from([256, 8, 16, 16, 32, 64]).flatmap(with_limit)


def check_rounds(case):
    """RegionCoreTree is filled by add_core and may be read at any time: each
    reading selects exactly the cores added so far."""
    from rig.machine_control import regions
    with sut("RegionCoreTree"):
        tree = regions.RegionCoreTree()
    so_far = {}
    sizes = []
    for i, pieces in enumerate(case["rounds"]):
        new = build_targets({"pieces": pieces})
        with sut("add_core"):
            for (x, y), cores in sorted(new.items()):
                for p in sorted(cores):
                    if case.get("readd") or \
                            p not in so_far.get((x, y), ()):
                        tree.add_core(x, y, p)
            if case.get("readd") and i % 2:
                # ... and once more, chip by chip in another order
                for (x, y), cores in sorted(new.items(), reverse=True):
                    for p in sorted(cores):
                        tree.add_core(x, y, p)
        for chip, cores in new.items():
            so_far.setdefault(chip, set()).update(cores)
        with sut("get_regions_and_coremasks"):
            out = list(tree.get_regions_and_coremasks())
        got = {}
        for region, mask in out:
            err = well_formed(int(region), int(mask))
            require(err is None, "malformed region word: %s" % err,
                    {"region": hex(int(region)), "mask": hex(int(mask))})
            expand(int(region), int(mask), got)
        problems = []
        for chip in set(got) | set(so_far):
            want = so_far.get(chip, set())
            have = got.get(chip, {})
            for c in set(want) | set(have):
                if (c in want) != (have.get(c, 0) == 1):
                    problems.append([list(chip), c, "added" if c in want
                                     else "never added",
                                     "selected %d times" % have.get(c, 0)])
        require(not problems, "reading %d of a tree does not select exactly "
                "the cores added so far" % (i + 1),
                {"problems": problems[:8], "rounds": len(case["rounds"])})
        sizes.append(len(out))
    return {"nontrivial": len(set(sizes)) > 1,
            "classes": ["rounds%d" % len(case["rounds"])]}


CLAUSES = [
    Clause("targets", check_targets, strategy=strat_targets,
           rule="target sets = unions of 1-5 pieces (sparse chips, rectangles "
                "straddling block boundaries, aligned 4/16/64(/256)-blocks "
                "that are full or lack one chip or one core); non-trivial = "
                "the result mixes a coarser-level region with level-3 regions "
                "or with a second core mask (a partial collapse)",
           examples={"quick": 2000, "thorough": 6000},
           shards={"quick": 8, "thorough": 16}),
    Clause("tree-in-rounds", check_rounds, strategy=strat_rounds,
           rule="a RegionCoreTree filled by add_core in 2-4 rounds of pieces "
                "and read after every round; non-trivial = two readings "
                "differ in length",
           examples={"quick": 300, "thorough": 3000},
           shards={"quick": 4, "thorough": 16}),
    Clause("chip-words", check_chip_words, enumerate=enum_chip_words,
           exhaustive=True,
           rule="all 65536 chips x 4 levels; one case = one x column",
           shards={"quick": 8, "thorough": 16}),
]
