"""C10 Routing entries installed in a chip's router are the entries given."""
from hypothesis import strategies as st

from vf.core import canonical, Clause, Violation, require, sut
from vf.sim import scamp
from vf.sim.world import World

PROPERTY_ID = "C10"
LEVEL = "exploration"
IMPORTS = ["rig.routing_table", "rig.place_and_route.routing_tree",
           "rig.machine_control"]
ASSUMPTIONS = [
    "hand-built routing trees visit each chip at most once per tree and every "
    "hop to another chip is labelled with a link (documented precondition)",
    "the simulated router hands out contiguous blocks first-fit from entries "
    "1..1023, returns base 0 on failure and installs a load record "
    "(index, route word, key, mask) at base + index for the given app id",
    "tables loaded have at least one entry (what an allocation of zero "
    "entries returns is not documented)",
]

LINK_VEC = scamp.LINK_VEC


# ------------------------------------------------------------ (a) the trees

@st.composite
def tree(draw, w, h, max_nodes):
    """A self-avoiding tree as nested dicts."""
    start = (draw(st.integers(0, w - 1)), draw(st.integers(0, h - 1)))
    visited = {start}
    root = {"chip": list(start), "children": []}
    frontier = [root]
    n = 1
    while frontier and n < max_nodes:
        node = frontier.pop(draw(st.integers(0, len(frontier) - 1)))
        for d in draw(st.lists(st.integers(0, 5), max_size=3, unique=True)):
            dx, dy = LINK_VEC[d]
            c = ((node["chip"][0] + dx) % w, (node["chip"][1] + dy) % h)
            if c in visited or n >= max_nodes:
                continue
            visited.add(c)
            child = {"chip": list(c), "children": []}
            node["children"].append([d, child])
            frontier.append(child)
            n += 1
    # leaves: vertices with core routes, link routes or no route
    def decorate(node):
        for _ in range(draw(st.integers(0, 2))):
            r = draw(st.one_of(st.none(), st.integers(6, 23),
                               st.integers(6, 9), st.integers(0, 5)))
            node["children"].append([r, "vertex"])
        for d, c in node["children"]:
            if isinstance(c, dict):
                decorate(c)
    decorate(root)
    return root


@st.composite
def strat_trees(draw, tier):
    big = tier == "thorough"
    w = draw(st.integers(1, 5))
    h = draw(st.integers(1, 5))
    n = draw(st.integers(1, 6 if big else 4))
    trees = [draw(tree(w, h, 12 if big else 7)) for _ in range(n)]
    if n > 1 and draw(st.booleans()):
        # a copy of a tree (equal forks) sharing key and mask
        trees[-1] = draw(st.sampled_from([trees[0], trees[0],
                                          _prune(trees[0])]))
    keys = []
    pool = [[0x10, 0xf0], [0x20, 0xf0], [0x0, 0x0], [0xffff0000, 0xffff0000]]
    if draw(st.integers(0, 2)) == 0:
        # keys with bits set outside their mask (the repository's own tests
        # use 0xDEAD / 0xBEEF): entries are one per key *and* mask as given,
        # so keys that differ only in masked-out bits stay apart
        pool = [[0x10, 0xf0], [0x13, 0xf0], [0x1c, 0xf0], [0x5, 0x0],
                [0x0, 0x0], [0xdead, 0xbeef]]
    for i in range(n):
        keys.append(draw(st.sampled_from(pool[:max(1, (n + 1) // 2)] + pool)))
    return {"w": w, "h": h, "trees": trees, "keys": keys,
            # equal trees given as one and the same RoutingTree object
            "alias": draw(st.booleans()),
            # hops that are instances of a subclass of RoutingTree
            "subclass": draw(st.sampled_from([0, 0, 0, 1, 2])),
            # keys are usually allocated for every net of the application,
            # also for those that were not routed (yet)
            "unrouted_keys": draw(st.integers(0, 2))}


def _prune(t):
    """A copy without the last child of the root (forks differently)."""
    import copy
    c = copy.deepcopy(t)
    if c["children"]:
        c["children"].pop()
    return c


_LABELLED = []


def _labelled_class():
    """A tree class of the program's own (a RoutingTree carrying a label)."""
    if not _LABELLED:
        from rig.place_and_route.routing_tree import RoutingTree

        class LabelledTree(RoutingTree):
            __slots__ = ["label"]

            def __init__(self, chip, children=None, label=None):
                super(LabelledTree, self).__init__(chip, children)
                self.label = label
        _LABELLED.append(LabelledTree)
    return _LABELLED[0]


def build_tree(node, sub=0, depth=0):
    """sub: 0 = plain RoutingTree nodes, 1 = every node an instance of a
    subclass, 2 = the nodes at odd depths only."""
    from rig.place_and_route.routing_tree import RoutingTree
    from rig.routing_table import Routes
    cls = _labelled_class() if sub == 1 or (sub == 2 and depth % 2) \
        else RoutingTree
    t = cls(tuple(node["chip"]))
    for r, c in node["children"]:
        route = None if r is None else Routes(r)
        if isinstance(c, dict):
            t.children.append((route, build_tree(c, sub, depth + 1)))
        else:
            t.children.append((route, object()))
    return t


def walk(node, arrived, out):
    """Independent traversal: out[chip] = (ins set, outs set)."""
    chip = tuple(node["chip"])
    outs = set(r for r, c in node["children"] if r is not None)
    out.append((chip, None if arrived is None else (arrived + 3) % 6, outs))
    for r, c in node["children"]:
        if isinstance(c, dict):
            walk(c, r, out)


def check_trees(case):
    from rig.netlist import Net
    from rig.routing_table import (routing_tree_to_tables,
                                   MultisourceRouteError)
    nets = [Net(object(), []) for _ in case["trees"]]
    built = {}
    routes = {}
    for n, t in zip(nets, case["trees"]):
        k = canonical(t) if case.get("alias") else id(n)
        if k not in built:
            built[k] = build_tree(t, case.get("subclass", 0))
        routes[n] = built[k]
    keys = dict((n, tuple(k)) for n, k in zip(nets, case["keys"]))
    for i in range(case.get("unrouted_keys", 0)):
        keys[Net(object(), [])] = (0x700 + i, 0xfff)
    # expected
    expect = {}
    conflict = False
    for t, k in zip(case["trees"], case["keys"]):
        visits = []
        walk(t, None, visits)
        for chip, arrived, outs in visits:
            e = expect.setdefault(chip, {}).get(tuple(k))
            if e is None:
                expect[chip][tuple(k)] = ({arrived}, set(outs))
            else:
                if e[1] != outs:
                    conflict = True
                e[0].add(arrived)
    shared = len(set(map(tuple, case["keys"]))) < len(case["keys"])
    try:
        with sut("routing_tree_to_tables", (MultisourceRouteError,)):
            tables = routing_tree_to_tables(routes, keys)
    except MultisourceRouteError as e:
        require(conflict, "MultisourceRouteError although no two trees with "
                "the same key and mask fork differently on any chip",
                {"error": str(e)})
        return {"documented": True, "nontrivial": True,
                "classes": ["multisource-error"]}
    require(not conflict, "two trees with the same key and mask fork "
            "differently on a chip but no MultisourceRouteError was raised",
            {})
    require(set(map(tuple, tables)) == set(expect), "tables are not produced "
            "for exactly the chips the trees visit",
            {"got": sorted(map(list, tables)),
             "expected": sorted(map(list, expect))})
    kinds = set()
    for chip, table in tables.items():
        seen = {}
        for e in table:
            km = (e.key, e.mask)
            require(km not in seen, "two entries for one key and mask on a "
                    "chip", {"chip": list(chip), "key": hex(e.key)})
            seen[km] = e
        require(set(seen) == set(expect[tuple(chip)]), "entries of a chip "
                "are not one per key and mask of the trees through it",
                {"chip": list(chip)})
        for km, e in seen.items():
            ins, outs = expect[tuple(chip)][km]
            got_ins = set(None if s is None else int(s) for s in e.sources)
            got_outs = set(int(r) for r in e.route)
            require(got_outs == outs, "an entry's route is not exactly the "
                    "set of directions the trees leave the chip by",
                    {"chip": list(chip), "key": hex(km[0]),
                     "got": sorted(got_outs), "expected": sorted(outs)})
            require(got_ins == ins, "an entry's sources are not exactly the "
                    "directions the trees enter the chip from",
                    {"chip": list(chip), "key": hex(km[0]),
                     "got": sorted(got_ins, key=repr),
                     "expected": sorted(ins, key=repr)})
            if any(o < 6 for o in outs) and any(o >= 6 for o in outs):
                kinds.add("core+link")
    return {"nontrivial": "core+link" in kinds or shared,
            "classes": sorted(kinds) + (["shared-key"] if shared else []) +
            (["key-outside-mask"] if any(k & ~m for k, m in case["keys"])
             else [])}


# ------------------------------------------- (a') a route of a thousand hops

def enum_chain(tier, shard, nshards):
    sizes = [(36, 36), (50, 25), (24, 60), (1100, 1), (34, 33)]
    if tier == "thorough":
        sizes += [(64, 48), (3000, 1)]
    for i, (w, h) in enumerate(sizes):
        if i % nshards == shard:
            yield {"w": w, "h": h, "leaf": 6 + (i % 18)}


def check_chain(case):
    """One net snaking through every chip of a w x h mesh: the tree is a
    chain of w*h - 1 hops (built without recursion)."""
    from rig.netlist import Net
    from rig.place_and_route.routing_tree import RoutingTree
    from rig.routing_table import routing_tree_to_tables, Routes
    w, h = case["w"], case["h"]
    path = []
    for y in range(h):
        xs = range(w) if y % 2 == 0 else range(w - 1, -1, -1)
        path += [(x, y) for x in xs]
    node = None
    direction = None
    expect = {}
    for i in range(len(path) - 1, -1, -1):
        chip = path[i]
        t = RoutingTree(chip)
        if node is None:
            t.children.append((Routes(case["leaf"]), object()))
            out = case["leaf"]
        else:
            nxt = path[i + 1]
            d = (nxt[0] - chip[0], nxt[1] - chip[1])
            out = {(1, 0): 0, (0, 1): 2, (-1, 0): 3}[d]
            t.children.append((Routes(out), node))
        expect[chip] = out
        node = t
    net = Net(object(), [])
    with sut("routing_tree_to_tables"):
        tables = routing_tree_to_tables({net: node}, {net: (0xbeef, 0xffff)})
    require(set(map(tuple, tables)) == set(expect), "tables are not produced "
            "for exactly the chips the tree visits",
            {"tables": len(tables), "chips": len(expect)})
    arrived = {path[0]: None}
    for a, b in zip(path, path[1:]):
        arrived[b] = (expect[a] + 3) % 6
    for chip, table in tables.items():
        chip = tuple(chip)
        require(len(table) == 1 and (table[0].key, table[0].mask) ==
                (0xbeef, 0xffff), "a chip of the route does not have exactly "
                "one entry with the net's key and mask", {"chip": list(chip)})
        e = table[0]
        require(set(int(r) for r in e.route) == {expect[chip]} and
                set(None if s_ is None else int(s_) for s_ in e.sources) ==
                {arrived[chip]}, "an entry's route or sources are not the "
                "directions the tree leaves / enters the chip by",
                {"chip": list(chip)})
    return {"nontrivial": True, "classes": ["hops>=1000"]}


# ------------------------------------------------------ (b) loading tables

def entry_strategy():
    return st.tuples(
        st.one_of(st.sets(st.integers(0, 23), max_size=4),
                  st.sets(st.integers(0, 23), min_size=0, max_size=24)),
        st.one_of(st.integers(0, 0xffffffff),
                  st.sampled_from([0, 0xffffffff, 0x80000000, 1])),
        st.one_of(st.integers(0, 0xffffffff),
                  st.sampled_from([0, 0xffffffff, 0xffff0000])))


@st.composite
def strat_load(draw, tier):
    big = tier == "thorough"
    n = draw(st.one_of(st.integers(1, 8), st.integers(1, 60),
                       st.integers(1, 200), st.integers(1, 60),
                       st.sampled_from([255, 256, 700, 1022, 1023, 1024]),
                       st.integers(1, 1023) if big else st.integers(1, 60)))
    seed = draw(st.integers(0, 10 ** 6))
    few = draw(st.lists(entry_strategy(), min_size=1, max_size=12))
    # pre-existing allocations of other applications (fragmentation)
    app_id = draw(st.integers(1, 255))
    # (some of them belong to the application that is being loaded: its
    # tables arrive in several batches)
    others = draw(st.lists(st.tuples(st.integers(1, 400),
                                     st.one_of(st.integers(1, 254),
                                               st.just(app_id))),
                           max_size=5))
    freed = draw(st.lists(st.booleans(), min_size=len(others),
                          max_size=len(others)))
    return {"n": n, "seed": seed, "few": [[sorted(r), k, m]
                                          for r, k, m in few],
            "others": [list(o) for o in others], "freed": freed,
            "chip": draw(st.sampled_from([[0, 0], [1, 0], [1, 1]])),
            "app_id": app_id,
            "via": draw(st.sampled_from(["entries", "tables", "context"])),
            "buffer": draw(st.sampled_from([64, 256, 256, 100]))}


def _entries(case):
    """n entries: the drawn ones, then pseudo-random ones."""
    out = [list(e) for e in case["few"]][:case["n"]]
    s = case["seed"] * 2654435761 % (1 << 32) or 1
    while len(out) < case["n"]:
        s = (s * 1103515245 + 12345) & 0xffffffff
        route = sorted(set([(s >> 3) % 24, (s >> 9) % 24, (s >> 17) % 24]))
        s2 = (s * 69069 + 1) & 0xffffffff
        out.append([route, s2, (s2 * 31 + s) & 0xffffffff])
    return out


def check_load(case):
    from rig.machine_control.machine_controller import SpiNNakerRouterError
    from rig.routing_table import RoutingTableEntry, Routes
    m = scamp.Machine(2, 2, buffer_size=case["buffer"]).populate()
    x, y = case["chip"]
    chip = m.chips[(x, y)]
    ep = m.endpoint((0, 0))
    # fragment the router's free list
    for (count, app), free in zip(case["others"], case["freed"]):
        base = 0
        for i, (s, l) in enumerate(chip.rtr_free):
            if l >= count:
                base = s
                chip.rtr_free[i] = (s + count, l - count)
                chip.rtr_blocks[s] = (count, app if app == case["app_id"]
                                      else 0x100 + app)
                for j in range(s, s + count):
                    chip.router[j] = (1 << (j % 24), j, 0xffffffff,
                                      app, 0)
                break
        chip.rtr_free = [(s, l) for s, l in chip.rtr_free if l > 0]
    for (s, (l, app)), free in zip(sorted(chip.rtr_blocks.items()),
                                   case["freed"]):
        if free:
            del chip.rtr_blocks[s]
            chip.rtr_free.append((s, l))
            for j in range(s, s + l):
                chip.router[j] = None
    chip.rtr_free.sort()
    m.sync()
    spec = _entries(case)
    entries = [RoutingTableEntry(set(Routes(r) for r in route), k, mk)
               for route, k, mk in spec]
    before = list(chip.router)
    blocks_before = dict(chip.rtr_blocks)
    can_fit = any(l >= len(spec) for s, l in chip.rtr_free)
    app = case["app_id"]
    with World(m) as w:
        mc = w.controller()
        try:
            with sut("load_routing_table_entries", (SpiNNakerRouterError,)):
                if case["via"] == "entries":
                    mc.load_routing_table_entries(entries, x, y, app)
                elif case["via"] == "tables":
                    mc.load_routing_tables({(x, y): entries}, app)
                else:
                    with mc(x=x, y=y, app_id=app):
                        mc.load_routing_table_entries(entries)
            failed = False
        except SpiNNakerRouterError as e:
            failed = True
            require(e.count == len(spec) and tuple(e.chip) == (x, y),
                    "SpiNNakerRouterError does not name the table size and "
                    "chip", {"count": e.count, "chip": repr(e.chip)})
        if m.violations:
            raise Violation("malformed command: %s" % m.violations[0][0],
                            m.violations[0][1])
        if failed:
            require(not can_fit, "SpiNNakerRouterError although a free block "
                    "of sufficient size exists", {"needed": len(spec),
                                                  "free": chip.rtr_free})
            require(chip.router == before and
                    chip.rtr_blocks == blocks_before, "router error raised "
                    "but router entries or their ownership changed", {})
            return {"documented": True, "nontrivial": len(spec) > 1,
                    "classes": ["router-full"]}
        require(can_fit, "load succeeded although no free block is large "
                "enough", {})
        new_blocks = dict((s, b) for s, b in chip.rtr_blocks.items()
                          if s not in blocks_before)
        require(len(new_blocks) == 1, "exactly one block should have been "
                "allocated", {"new": repr(new_blocks)})
        base, (length, owner) = list(new_blocks.items())[0]
        require(owner == app and length == len(spec), "the block is not "
                "allocated for the application with the table's length",
                {"owner": owner, "length": length})
        for i, (route, k, mk) in enumerate(spec):
            word = 0
            for r in route:
                word |= 1 << r
            got = chip.router[base + i]
            require(got is not None and got[:3] == (word, k, mk) and
                    got[3] == app, "router entry %d is not the entry given "
                    "(same key, mask, route bits, order, app id)" % i,
                    {"position": base + i, "got": repr(got),
                     "expected": [hex(word), hex(k), hex(mk), app]})
        for j in range(1024):
            if not base <= j < base + len(spec):
                require(chip.router[j] == before[j], "a router entry outside "
                        "the allocated block changed", {"index": j})
        # read back (another chip's router first, with the same controller)
        ox, oy = (0, 1) if (x, y) != (0, 1) else (0, 0)
        with sut("get_routing_table_entries"):
            other = mc.get_routing_table_entries(ox, oy)
        orouter = m.chips[(ox, oy)].router
        require(len(other) == 1024 and all(
            (o is None) == (e is None) for o, e in zip(other, orouter)),
            "the read-back of another chip's router does not show its "
            "entries", {"chip": [ox, oy]})
        with sut("get_routing_table_entries"):
            back = mc.get_routing_table_entries(x, y)
        require(len(back) == 1024, "read-back is not a 1024-entry list",
                {"length": len(back)})
        for j in range(1024):
            e = chip.router[j]
            if e is None:
                require(back[j] is None, "an unused router entry is read "
                        "back as used", {"index": j})
            else:
                require(back[j] is not None, "an entry the router holds is "
                        "read back as unused",
                        {"index": j, "route_word": hex(e[0]),
                         "key": hex(e[1]), "mask": hex(e[2])})
                rte, a, core = back[j]
                route = set(r for r in range(24) if e[0] >> r & 1)
                require(set(int(r) for r in rte.route) == route and
                        rte.key == e[1] and rte.mask == e[2] and
                        a == (e[3] & 0xff), "a router entry is read back "
                        "differently from what the router holds",
                        {"index": j})
        # ---- the caller re-uses its list: edited in place (same object,
        # same length, other order) it is loaded into another chip's router
        reloaded = False
        if len(set((tuple(r), k, mk) for r, k, mk in spec)) >= 2:
            ochip = m.chips[(ox, oy)]
            oblocks = dict(ochip.rtr_blocks)
            entries.reverse()
            spec2 = spec[::-1]
            app2 = app % 254 + 1
            try:
                with sut("load_routing_table_entries (same list, edited in "
                         "place)", (SpiNNakerRouterError,)):
                    mc.load_routing_table_entries(entries, ox, oy, app2)
                reloaded = True
            except SpiNNakerRouterError:
                pass
            if reloaded:
                nb = [(s_, b) for s_, b in ochip.rtr_blocks.items()
                      if s_ not in oblocks]
                require(len(nb) == 1 and nb[0][1] == (len(spec2), app2),
                        "the second load did not allocate one block of the "
                        "table's length for its application",
                        {"new": repr(nb)})
                base2 = nb[0][0]
                for i, (route, k, mk) in enumerate(spec2):
                    word = 0
                    for r in route:
                        word |= 1 << r
                    got = ochip.router[base2 + i]
                    require(got is not None and got[:3] == (word, k, mk) and
                            got[3] == app2, "router entry %d of a list that "
                            "was edited in place and loaded again is not the "
                            "entry given" % i,
                            {"position": base2 + i, "got": repr(got),
                             "expected": [hex(word), hex(k), hex(mk), app2]})
    mixed = any(any(r < 6 for r in route) and any(r >= 6 for r in route)
                for route, k, mk in spec)
    return {"nontrivial": len(spec) >= 2 and mixed,
            "classes": ["via-" + case["via"],
                        "fragmented" if case["others"] else "empty-router"] +
                       (["multi-packet"] if len(spec) * 16 > case["buffer"]
                        else []) + (["list-reloaded"] if reloaded else [])}


CLAUSES = [
    Clause("trees-to-tables", check_trees, strategy=strat_trees,
           rule="1-4/6 hand-built self-avoiding trees on grids up to 5x5 "
                "(branching, chains, leaves with core, link and None routes), "
                "some sharing key and mask with equal or different forks; "
                "non-trivial = trees share a key/mask or an entry mixes core "
                "and link routes",
           examples={"quick": 1500, "thorough": 15000},
           shards={"quick": 4, "thorough": 16}),
    Clause("thousand-hops", check_chain, enumerate=enum_chain,
           rule="one net snaking through every chip of a mesh of 1100-1300 "
                "(thorough: 3000) chips, i.e. a tree more than a thousand "
                "hops deep; every case counts",
           shards={"quick": 5, "thorough": 7}),
    Clause("load-and-read-back", check_load, strategy=strat_load,
           rule="tables of 1-1024 entries over all 24 "
                "route bits and arbitrary key/mask, loaded through the three "
                "entry points into a router whose free list is empty, "
                "fragmented or too small; non-trivial = >= 2 entries incl. "
                "one that routes to a core and a link",
           examples={"quick": 400, "thorough": 3000},
           shards={"quick": 8, "thorough": 16}),
]
