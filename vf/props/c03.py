"""C03 Routing trees are loop-free, connected, use only live hardware."""
import random

from hypothesis import strategies as st

from vf.core import Clause, Violation, require, sut
from vf.gen import pr

PROPERTY_ID = "C03"
LEVEL = "exploration"
IMPORTS = ["rig.place_and_route", "rig.place_and_route.route.ner"]
ASSUMPTIONS = [
    "vertices are placed on working chips (placements are drawn directly, "
    "independently of the placers)",
    "a hop is usable iff the link is working at the sending chip and the "
    "chip it leads to (modulo the machine size) is working; the machine is "
    "'connected' iff this directed graph is strongly connected",
    "random tie-breaks inside the router are pinned by random.seed(drawn "
    "integer) immediately before the call",
    "route-endpoint constraints may name dead links (documented use)",
]


@st.composite
def strat_route(draw, tier, holes=False):
    big = tier == "thorough"
    thin = st.sampled_from([(1, 2), (1, 3), (1, 4), (1, 6), (2, 1), (3, 1),
                            (6, 1), (2, 2), (2, 3), (2, 4), (2, 6), (3, 2),
                            (4, 2), (6, 2), (3, 3), (1, 1)])
    free = st.tuples(st.integers(1, 12 if big else 7),
                     st.integers(1, 12 if big else 7))
    if holes:
        # wide machines riddled with dead chips: detours run through the
        # subtree being reconnected
        m = draw(pr.machine(resources={"Cores": 18}, exceptions=False,
                            shape=st.tuples(st.integers(4, 12 if big else 9),
                                            st.integers(3, 8 if big else 5)),
                            max_dead_frac=0.45))
    else:
        m = draw(pr.machine(resources={"Cores": 18}, exceptions=False,
                            shape=st.one_of(thin, free, free),
                            max_dead_frac=0.25))
    if draw(st.integers(0, 2)) == 0:
        m["mesh"] = False
    if holes == "links":
        # 10-30% of all links dead, each in one direction only
        w_, h_ = m["w"], m["h"]
        m["dead_chips"] = []
        k = draw(st.integers((6 * w_ * h_) // 10, (18 * w_ * h_) // 10))
        dl = draw(st.lists(st.tuples(st.integers(0, w_ - 1),
                                     st.integers(0, h_ - 1),
                                     st.integers(0, 5)),
                           min_size=k, max_size=k))
        m["dead_links"] = sorted(set(dl))
    chips = pr.live_chips(m)
    nv = draw(st.integers(3 if holes else 1, 10 if big else 7))
    names = ["v%d" % i for i in range(nv)]
    chip_of = dict((n, list(draw(st.sampled_from(chips)))) for n in names)
    alloc = {}
    for n in names:
        k = draw(st.integers(0, 6))
        if k == 0:
            continue                      # no allocation at all
        if k == 1:
            alloc[n] = None               # allocation without cores
            continue
        start = draw(st.integers(0, 16))
        size = draw(st.sampled_from([0, 1, 1, 1, 2, 3]))
        alloc[n] = [start, min(18, start + size)]
    endpoints = {}
    for n in names:
        if draw(st.integers(0, 7)) == 0:
            endpoints[n] = draw(st.integers(0, 23))
    nets = []
    for _ in range(draw(st.integers(1, 4))):
        src = draw(st.sampled_from(names))
        sinks = draw(st.lists(st.sampled_from(names), min_size=0,
                              max_size=8 if big else 6))
        nets.append({"source": src, "sinks": sinks,
                     "weight": draw(st.sampled_from([1, 0, 2.5])),
                     # Net(source, sink): one sink given as the vertex
                     "bare": len(sinks) == 1 and draw(st.booleans())})
    # some of the faults are only recorded on the Machine object after it
    # has been routed on once (a program that learns about a fault and
    # routes again on its machine description)
    late = None
    if (m["dead_links"] or m["dead_chips"]) and draw(st.integers(0, 2)) == 0:
        late = {"dead_links": draw(st.lists(st.sampled_from(
                    [list(l) for l in m["dead_links"]]), unique_by=tuple,
                    max_size=6)) if m["dead_links"] else [],
                "dead_chips": [c for c in draw(st.lists(st.sampled_from(
                    [list(c) for c in m["dead_chips"]]), unique_by=tuple,
                    max_size=2)) if c not in list(chip_of.values())]
                if m["dead_chips"] else []}
    return {"machine": m, "chip_of": chip_of, "alloc": alloc,
            "endpoints": endpoints, "nets": nets, "late_faults": late,
            "radius": draw(st.sampled_from([0, 1, 2, 3, 20, None])),
            # cores named by an identifier of the caller's own, passed as
            # the documented core_resource= option
            "core_resource": draw(st.sampled_from([None, None, None,
                                                   "my cores"])),
            "seed": draw(st.integers(0, 10 ** 6)),
            "vkind": draw(st.sampled_from(pr.VERTEX_KINDS))}


def build(case, machine_case=None):
    from rig.netlist import Net
    from rig.place_and_route import Cores
    if case.get("core_resource"):
        Cores = case["core_resource"]
    from rig.place_and_route.constraints import RouteEndpointConstraint
    from rig.routing_table import Routes
    m = machine_case or case["machine"]
    late = case.get("late_faults") if machine_case is None else None
    if late and (late["dead_links"] or late["dead_chips"]):
        early = dict(m)
        early["dead_links"] = [l for l in m["dead_links"]
                               if list(l) not in late["dead_links"]]
        early["dead_chips"] = [c for c in m["dead_chips"]
                               if list(c) not in late["dead_chips"]]
        machine = pr.build_machine(early)
    else:
        machine = pr.build_machine(m)
    names = sorted(case["chip_of"], key=lambda n: int(n[1:]))
    vobj = pr.vertex_objects(names, case["vkind"])
    vr = dict((vobj[n], {Cores: 1}) for n in names)
    placements = dict((vobj[n], tuple(case["chip_of"][n])) for n in names)
    allocations = {}
    for n, a in case["alloc"].items():
        allocations[vobj[n]] = {} if a is None else {Cores: slice(a[0], a[1])}
    constraints = [RouteEndpointConstraint(vobj[n], Routes(r))
                   for n, r in sorted(case["endpoints"].items())]
    from vf.gen.problems import sinks_arg
    nets = [Net(vobj[n["source"]], sinks_arg(vobj, n), n["weight"])
            for n in case["nets"]]
    return machine, vobj, vr, nets, constraints, placements, allocations


def run_route(case, machine_case=None):
    from rig.place_and_route import route
    from rig.place_and_route.exceptions import MachineHasDisconnectedSubregion
    machine, vobj, vr, nets, constraints, placements, allocations = \
        build(case, machine_case)
    kwargs = {}
    if case["radius"] is not None:
        kwargs["radius"] = case["radius"]
    if case.get("core_resource"):
        kwargs["core_resource"] = case["core_resource"]
    late = case.get("late_faults") if machine_case is None else None
    if late and (late["dead_links"] or late["dead_chips"]):
        from rig.links import Links
        random.seed(case["seed"] + 1)
        try:
            with sut("route (before the late faults are recorded)",
                     (MachineHasDisconnectedSubregion,)):
                route(vr, nets, machine, constraints, placements,
                      allocations, **kwargs)
        except MachineHasDisconnectedSubregion:
            pass
        for x, y, l in late["dead_links"]:
            machine.dead_links.add((x, y, Links(l)))
        for x, y in late["dead_chips"]:
            machine.dead_chips.add((x, y))
    random.seed(case["seed"])
    with sut("route", (MachineHasDisconnectedSubregion,)):
        if not allocations and case.get("omit_allocations"):
            # allocations is an optional argument
            routes = route(vr, nets, machine, constraints, placements,
                           **kwargs)
        else:
            routes = route(vr, nets, machine, constraints, placements,
                           allocations, **kwargs)
    return routes, nets, vobj


def walk_tree(m, root, source_chip, expected_leaves, what):
    """Structural check of one routing tree.

    expected_leaves: {chip: set((route or None, vertex name))}.
    Returns (set of chips, number of hops)."""
    from rig.place_and_route.routing_tree import RoutingTree
    live = set(pr.live_chips(m))
    working = pr.working_links(m)
    require(isinstance(root, RoutingTree), "%s: not a RoutingTree" % what, {})
    require(tuple(root.chip) == tuple(source_chip), "%s: tree is not rooted "
            "at the chip of the net's source" % what,
            {"root": list(root.chip), "source_chip": list(source_chip)})
    seen_chips = {}
    seen_ids = set()
    leaves = {}
    stack = [root]
    hops = 0
    while stack:
        node = stack.pop()
        chip = tuple(node.chip)
        require(id(node) not in seen_ids, "%s: a tree node is reachable "
                "twice (attached to two parents)" % what,
                {"chip": list(chip)})
        seen_ids.add(id(node))
        require(chip not in seen_chips, "%s: a chip appears more than once "
                "in the tree" % what, {"chip": list(chip)})
        seen_chips[chip] = node
        require(chip in live, "%s: tree visits a chip that is dead or "
                "outside the machine" % what, {"chip": list(chip)})
        for child in node.children:
            require(isinstance(child, tuple) and len(child) == 2,
                    "%s: malformed child" % what, {"child": repr(child)})
            direction, obj = child
            if isinstance(obj, RoutingTree):
                require(direction is not None and 0 <= int(direction) < 6,
                        "%s: hop to another chip is not labelled with a link"
                        % what, {"chip": list(chip),
                                 "direction": repr(direction)})
                d = int(direction)
                require((chip[0], chip[1], d) in working, "%s: hop uses a "
                        "link that is not working" % what,
                        {"from": list(chip), "link": d,
                         "to": list(obj.chip)})
                require(pr.neighbour(m, chip, d) == tuple(obj.chip),
                        "%s: hop does not lead to the adjacent chip in its "
                        "direction" % what,
                        {"from": list(chip), "link": d, "to": list(obj.chip),
                         "neighbour": list(pr.neighbour(m, chip, d))})
                hops += 1
                stack.append(obj)
            else:
                leaves.setdefault(chip, []).append(
                    (None if direction is None else int(direction), obj))
    return seen_chips, leaves, hops


def check_route(case):
    from rig.place_and_route.exceptions import MachineHasDisconnectedSubregion
    m = case["machine"]
    connected = pr.strongly_connected(m)
    cls = ["connected" if connected else "disconnected",
           "mesh" if m["mesh"] else "torus",
           "thin" if min(m["w"], m["h"]) <= 2 else "wide"]
    faulty = bool(m["dead_chips"] or m["dead_links"])
    try:
        routes, nets, vobj = run_route(case)
    except MachineHasDisconnectedSubregion as e:
        require(not connected, "route raises MachineHasDisconnectedSubregion "
                "although every working chip can reach every other over "
                "working links", {"error": str(e)})
        return {"documented": True, "classes": cls + ["raised"]}
    name_of = dict((id(o) if case["vkind"] in ("obj", "idobj") else o, n)
                   for n, o in vobj.items())

    def nm(o):
        return name_of.get(id(o) if case["vkind"] in ("obj", "idobj") else o)
    require(isinstance(routes, dict) and len(routes) == len(nets) and
            all(n in routes for n in nets), "route does not return one tree "
            "per net", {})
    nt = False
    detour = False
    for i, (net, ncase) in enumerate(zip(nets, case["nets"])):
        what = "net %d" % i
        # expected leaves
        expected = {}
        for s in ncase["sinks"]:
            chip = tuple(case["chip_of"][s])
            exp = expected.setdefault(chip, set())
            if s in case["endpoints"]:
                exp.add((case["endpoints"][s], s))
            else:
                a = case["alloc"].get(s)
                if a is None:
                    exp.add((None, s))
                else:
                    for c in range(a[0], a[1]):
                        exp.add((6 + c, s))
        chips, leaves, hops = walk_tree(
            m, routes[net], case["chip_of"][ncase["source"]], expected, what)
        got = {}
        for chip, ls in leaves.items():
            for r, o in ls:
                n = nm(o)
                require(n is not None, "%s: a leaf is not a vertex of the "
                        "problem" % what, {"leaf": repr(o)})
                got.setdefault(chip, set()).add((r, n))
        expected = dict((c, e) for c, e in expected.items() if e)
        require(got == expected, "%s: the leaves of the tree are not exactly "
                "the sinks on their chips with their allocated cores / "
                "constrained routes" % what,
                {"got": sorted((list(c), sorted(v, key=repr))
                               for c, v in got.items()),
                 "expected": sorted((list(c), sorted(v, key=repr))
                                    for c, v in expected.items())})
        for chip in expected:
            require(chip in chips, "%s: sink chip not in the tree" % what,
                    {"chip": list(chip)})
        if len(set(tuple(case["chip_of"][s]) for s in ncase["sinks"])) >= 3:
            nt = True
        if hops >= 1 and faulty:
            nt = True
    # did the faults matter?  (classification only)
    if faulty and connected:
        clean = dict(m, dead_chips=[], dead_links=[])
        try:
            r2, nets2, _ = run_route(case, clean)
            for n1, n2 in zip(nets, nets2):
                if _shape(routes[n1]) != _shape(r2[n2]):
                    detour = True
        except Violation:
            pass
    return {"nontrivial": nt,
            "classes": cls + (["faulty"] if faulty else ["perfect"]) +
                       (["detour"] if detour else [])}


def _shape(tree):
    from rig.place_and_route.routing_tree import RoutingTree
    out = []
    stack = [tree]
    while stack:
        n = stack.pop()
        for d, o in n.children:
            if isinstance(o, RoutingTree):
                out.append((tuple(n.chip), int(d), tuple(o.chip)))
                stack.append(o)
    return sorted(out)


def strat_holes(tier):
    return strat_route(tier, True)


def strat_links(tier):
    return strat_route(tier, "links")


@st.composite
def strat_broadcast(draw, tier):
    """Nets with tens of sinks on fault-free machines of 6-24 chips on a
    side and small search radii: the partial tree outgrows the ring of
    chips searched around each sink, so the spiral search is used."""
    w, h = draw(st.integers(6, 24)), draw(st.integers(6, 24))
    n = draw(st.integers(20, 80))
    m = {"w": w, "h": h, "mesh": draw(st.sampled_from([False, False, True])),
         "resources": {"Cores": 18}, "exceptions": [], "dead_chips": [],
         "dead_links": []}
    chips = draw(st.lists(st.tuples(st.integers(0, w - 1),
                                    st.integers(0, h - 1)),
                          min_size=n, max_size=n))
    names = ["v%d" % i for i in range(n)]
    return {"machine": m,
            "chip_of": dict((v, list(c)) for v, c in zip(names, chips)),
            "alloc": {}, "endpoints": {},
            "nets": [{"source": names[0], "sinks": names[1:], "weight": 1}],
            "radius": draw(st.sampled_from([1, 1, 2, 2, 3, 5])),
            "core_resource": None, "late_faults": None,
            "omit_allocations": draw(st.booleans()),
            "seed": draw(st.integers(0, 1000)), "vkind": "str"}


def enum_long(tier, shard, nshards):
    """Nets whose tree is more than a thousand hops deep."""
    shapes = [(1500, 1, True), (1, 1200, True), (2600, 1, False)]
    for i, (w, h, mesh) in enumerate(shapes):
        if i % nshards == shard:
            yield {"machine": {"w": w, "h": h, "mesh": mesh,
                               "resources": {"Cores": 18}, "exceptions": [],
                               "dead_chips": [], "dead_links": []},
                   "chip_of": {"v0": [0, 0], "v1": [w - 1 if mesh else w // 2,
                                                    h - 1 if mesh else 0]},
                   "alloc": {"v1": [1, 2]}, "endpoints": {},
                   "nets": [{"source": "v0", "sinks": ["v1"], "weight": 1}],
                   "radius": None, "core_resource": None, "late_faults": None,
                   "seed": i, "vkind": "str"}


def check_long(case):
    out = check_route(case)
    out["nontrivial"] = True
    return out


CLAUSES = [
    Clause("trees", check_route, strategy=strat_route,
           rule="machines weighted to 1xN / 2xN shapes, torus and mesh, dead "
                "chips and one- or two-directional dead links x directly "
                "drawn placements x nets (repeated sinks, sinks on the source "
                "chip) x allocations x endpoint constraints x radius; "
                "non-trivial = a net reaches >= 3 distinct sink chips, or the "
                "machine has faults and the tree has >= 1 hop",
           examples={"quick": 1500, "thorough": 25000},
           shards={"quick": 8, "thorough": 16}),
    Clause("dead-links", check_route, strategy=strat_links,
           rule="as 'trees' on machines 4-12 wide, 3-8 high in which 10-30% "
                "of all links are dead in one direction (no dead chips): "
                "several repairs per net that hang one orphaned piece under "
                "another; same non-triviality rule",
           examples={"quick": 2500, "thorough": 40000},
           shards={"quick": 8, "thorough": 16}),
    Clause("holes", check_route, strategy=strat_holes,
           rule="as 'trees' on machines 4-12 wide, 3-8 high with up to 45% "
                "dead chips, so that repairs interact with the rest of the "
                "tree; same non-triviality rule",
           examples={"quick": 2500, "thorough": 40000},
           shards={"quick": 8, "thorough": 16}),
    Clause("long-net", check_long, enumerate=enum_long,
           rule="a net from one end to the other of a 1500x1 / 1x1200 mesh "
                "and half way round a 2600x1 torus: trees more than a "
                "thousand hops deep; every case counts",
           shards={"quick": 3, "thorough": 3}),
    Clause("broadcast", check_route, strategy=strat_broadcast,
           rule="one net of 20-80 sinks on a fault-free torus or mesh of "
                "6-24 chips on a side with search radius 1-5 (the partial "
                "tree exceeds three times the searched ring, so the spiral "
                "search picks the attachment points); every case counts",
           examples={"quick": 150, "thorough": 3000},
           shards={"quick": 4, "thorough": 16}),
]
