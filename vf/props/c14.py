"""C14 Probed system description and derived machine model match the machine.
"""
import base64
import struct

from hypothesis import strategies as st

from vf.core import Clause, Violation, require, sut
from vf.sim import scamp
from vf.sim.world import World

PROPERTY_ID = "C14"
LEVEL = "exploration"
IMPORTS = ["rig.machine_control", "rig.place_and_route.utils",
           "rig.routing_table"]
ASSUMPTIONS = [
    "machine state is generated for the simulated SC&MP (vf/sim/scamp.py): "
    "chips absent from the P2P table are dead, chips present but silent make "
    "the client run into its (virtual time) timeout",
    "the P2P table is laid out as documented: 3 bits per entry, 8 entries per "
    "word, one 256-entry column per x at 128-byte stride",
    "IOBUF blocks are (next, time, ms, length) headers followed by the data; "
    "VCPU fields rt_code and cpu_state hold valid enumeration values",
    "per-chip resource figures of build_machine are compared through "
    "machine[chip], dead links through the directed set of working links",
]

STATE_NAMES = ["dead", "power_down", "runtime_exception", "watchdog", "init",
               "wait", "c_main", "run", "sync0", "sync1", "pause", "exit",
               "idle"]
STATE_VAL = {"dead": 0, "power_down": 1, "runtime_exception": 2,
             "watchdog": 3, "init": 4, "wait": 5, "c_main": 6, "run": 7,
             "sync0": 8, "sync1": 9, "pause": 10, "exit": 11, "idle": 15}


def b64(b):
    return base64.b64encode(bytes(b)).decode()


@st.composite
def chip_state(draw, shared_states):
    n = draw(st.one_of(st.just(18), st.just(17), st.integers(1, 18)))
    states = []
    for p in range(n):
        if p in shared_states:
            states.append(shared_states[p])
        else:
            states.append(draw(st.sampled_from(
                ["idle"] * 6 + ["run", "wait", "exit", "dead", "sync0",
                                "pause"])))
    if n:
        states[0] = shared_states.get(0, "run")
    return {"cores": n, "states": states,
            "links": sorted(draw(st.one_of(
                st.just(set(range(6))),
                st.sets(st.integers(0, 5))))),
            "sdram": draw(st.one_of(st.just(119275492),
                                    st.integers(0, 0xffffffff))),
            "sram": draw(st.one_of(st.just(22240), st.integers(0, 0xffffffff))),
            "rtr": draw(st.one_of(st.just(1023), st.integers(0, 1024),
                                  st.just(1024))),
            "eth_up": draw(st.booleans()),
            "ip": draw(st.lists(st.integers(0, 255), min_size=4, max_size=4)),
            "local_eth": draw(st.lists(st.integers(0, 255), min_size=2,
                                       max_size=2))}


@st.composite
def strat_state(draw, tier):
    big = tier == "thorough"
    sparse = draw(st.integers(0, 3 if big else 7)) == 0
    if sparse:
        w = draw(st.integers(1, 255))
        h = draw(st.integers(1, 255))
        coords = set(draw(st.lists(st.tuples(st.integers(0, w - 1),
                                             st.integers(0, h - 1)),
                                   max_size=12)))
        coords.add((0, 0))
    else:
        w = draw(st.integers(1, 12 if big else 6))
        h = draw(st.integers(1, 12 if big else 6))
        coords = set((x, y) for x in range(w) for y in range(h))
        dead = draw(st.lists(st.sampled_from(sorted(coords)),
                             max_size=max(0, len(coords) // 3), unique=True))
        coords -= set(dead)
        coords.add((0, 0))
    coords = sorted(coords)
    shared = {}
    for p in draw(st.lists(st.integers(1, 17), max_size=3, unique=True)):
        shared[p] = draw(st.sampled_from(["run", "wait", "exit"]))
    if draw(st.booleans()):
        shared[0] = "run"
    default = draw(chip_state(shared))
    chips = {}
    for c in coords:
        k = draw(st.integers(0, 3))
        chips["%d,%d" % c] = None if k else draw(chip_state(shared))
    silent = [list(c) for c in draw(st.lists(
        st.sampled_from(coords), max_size=2, unique=True)) if c != (0, 0)]
    probe_chip = draw(st.sampled_from([c for c in coords
                                       if list(c) not in silent]))
    nblocks = draw(st.integers(0, 4))
    iobuf_size = draw(st.sampled_from([16, 64, 100]))
    if draw(st.integers(0, 11)) == 0:
        # a core that has printed a lot: a long chain of small blocks
        nblocks = draw(st.sampled_from([40, 64, 65, 70, 130, 260]))
        iobuf_size = 16
    blocks = [b64(draw(st.binary(max_size=iobuf_size)))
              for _ in range(nblocks)]
    text_blocks = draw(st.booleans())
    if text_blocks:
        blocks = [b64(draw(st.text(alphabet="abc \né\0", max_size=8))
                      .encode("utf-8")[:iobuf_size]) for _ in range(nblocks)]
        blocks = [b64(base64.b64decode(b).decode("utf-8", "ignore")
                      .encode("utf-8")) for b in blocks]
    # a second console buffer on a chip whose block size may differ
    probe2 = None
    if draw(st.booleans()):
        size2 = draw(st.sampled_from([16, 32, 64, 100]))
        chip2 = draw(st.sampled_from([c for c in coords
                                      if list(c) not in silent]))
        probe2 = {"chip": list(chip2), "core": draw(st.integers(0, 17)),
                  "iobuf_size": iobuf_size if chip2 == probe_chip else size2,
                  "blocks": [b64(draw(st.binary(min_size=1, max_size=(
                      iobuf_size if chip2 == probe_chip else size2))))
                      for _ in range(draw(st.integers(1, 3)))]}
    vcpu = {}
    for f in ["r0", "r1", "r2", "r3", "r4", "r5", "r6", "r7", "psr", "sp",
              "lr", "mbox_ap_msg", "mbox_mp_msg", "sw_file", "sw_line",
              "time", "sw_ver", "user0", "user1", "user2", "user3"]:
        vcpu[f] = draw(st.one_of(st.just(0), st.integers(0, 0xffffffff)))
    vcpu["rt_code"] = draw(st.integers(0, 20))
    vcpu["phys_cpu"] = draw(st.integers(0, 17))
    vcpu["app_id"] = draw(st.integers(0, 255))
    vcpu["mbox_ap_cmd"] = draw(st.integers(0, 255))
    vcpu["mbox_mp_cmd"] = draw(st.integers(0, 255))
    vcpu["sw_count"] = draw(st.integers(0, 0xffff))
    vcpu["app_name"] = draw(st.text(alphabet="abcXYZ_09", max_size=16))
    return {"w": w, "h": h, "default": default, "chips": chips,
            "silent": silent, "buffer": draw(st.sampled_from([256, 128])),
            "silent_how": draw(st.sampled_from(["timeout", "timeout",
                                                "code"])),
            "version": draw(st.sampled_from(
                [[1, 33], [1, 30], [3, 0], "2.1.0", "3.0.0-dev",
                 "10.20.30+build5"])),
            "name": draw(st.sampled_from(["SC&MP/SpiNNaker",
                                          "SARK/SpiNNaker"])),
            "probe": {"chip": list(probe_chip),
                      "core": draw(st.integers(0, 17)), "vcpu": vcpu,
                      "iobuf_size": iobuf_size, "blocks": blocks,
                      "text": text_blocks, "second": probe2,
                      "diag": draw(st.lists(st.integers(0, 0xffffffff),
                                            min_size=16, max_size=16))}}


def build_model(case):
    m = scamp.Machine(case["w"], case["h"], buffer_size=case["buffer"])
    v = case["version"]
    m.version = tuple(v) if isinstance(v, list) else v
    m.version_string = case["name"]
    m.iobuf_size = case["probe"]["iobuf_size"]
    spec = {}
    for key, st_ in case["chips"].items():
        x, y = map(int, key.split(","))
        s = st_ or case["default"]
        spec[(x, y)] = s
        c = m.add_chip(x, y, num_cores=s["cores"])
        for p in range(18):
            c.cores[p].state = STATE_VAL[s["states"][p]] \
                if p < s["cores"] else 0
        c.links = set(s["links"])
        c.free_sdram, c.free_sram = s["sdram"], s["sram"]
        free = s["rtr"]
        c.rtr_free = [(1 if free < 1024 else 0, free)] if free else []
        if free < 1023:
            c.rtr_blocks[1 + free] = (1023 - free, 999)
        c.eth_up = s["eth_up"]
        c.ip = tuple(s["ip"])
        c.local_eth = tuple(s["local_eth"])
    for i, (x, y) in enumerate(case["silent"]):
        m.chips[(x, y)].silent = True
        if case.get("silent_how") == "code":
            # not silence but an error code sent on the chip's behalf
            m.chips[(x, y)].no_reply_code = [0x8e, 0x8f, 0x8d][i % 3]
    for (x, y), c in m.chips.items():
        c.sync_system_memory(router=False, p2p=(x, y) == (0, 0))
    return m, spec


def check_state(case):
    from rig.links import Links
    from rig.machine_control.consts import AppState, P2PTableEntry
    from rig.machine_control.scp_connection import SCPError
    from rig.place_and_route import Cores, SDRAM, SRAM
    from rig.place_and_route.utils import (build_machine,
                                           build_core_constraints)
    from rig.routing_table import build_routing_table_target_lengths
    m, spec = build_model(case)
    responding = set(c for c in spec if list(c) not in case["silent"])
    pr = case["probe"]
    px, py = pr["chip"]
    pchip = m.chips[(px, py)]
    pcore = pr["core"]
    vst = m.structs["vcpu"]
    # ---- write the probed core's VCPU block and IOBUF chain
    for name, val in pr["vcpu"].items():
        f = vst.fields[name]
        data = val.encode("utf-8") if name == "app_name" else val
        pchip.mem.write(pchip.vcpu_addr(pcore, name), f.pack(data))
    addr = 0
    blocks = [base64.b64decode(b) for b in pr["blocks"]]
    for i in reversed(range(len(blocks))):
        here = scamp.IOBUF_AREA + i * 0x400
        pchip.mem.write(here, struct.pack("<4I", addr, 7 * i, i,
                                          len(blocks[i])) + blocks[i] +
                        b"\xee" * (pr["iobuf_size"] - len(blocks[i])))
        addr = here
    pchip.mem.write(pchip.vcpu_addr(pcore, "iobuf"), struct.pack("<I", addr))
    p2 = pr.get("second")
    if p2 and (tuple(p2["chip"]), p2["core"]) == ((px, py), pcore):
        p2 = None
    if p2:
        chip2 = m.chips[tuple(p2["chip"])]
        chip2.sv_write("iobuf_size", p2["iobuf_size"])
        blocks2 = [base64.b64decode(b) for b in p2["blocks"]]
        addr2 = 0
        for i in reversed(range(len(blocks2))):
            here = scamp.IOBUF_AREA + (300 + i) * 0x400
            chip2.mem.write(here, struct.pack("<4I", addr2, 0, 0,
                                              len(blocks2[i])) + blocks2[i] +
                            b"\xdd" * (p2["iobuf_size"] - len(blocks2[i])))
            addr2 = here
        chip2.mem.write(chip2.vcpu_addr(p2["core"], "iobuf"),
                        struct.pack("<I", addr2))
    pchip.mem.write(scamp.RTR_DIAG, struct.pack("<16I", *pr["diag"]))
    if pcore < len(spec[(px, py)]["states"]):
        pchip.mem.write(pchip.vcpu_addr(pcore, "cpu_state"),
                        bytes([STATE_VAL[spec[(px, py)]["states"][pcore]]
                               if pcore < spec[(px, py)]["cores"] else 0]))
    cls = []
    with World(m) as w:
        with sut("probing"):
            mc = w.controller()
            si = mc.get_system_info()
        with sut("probing again"):
            si_again = mc.get_system_info()
        require(dict(si_again) == dict(si) and
                (si_again.width, si_again.height) == (si.width, si.height),
                "probing the same machine a second time with the same "
                "controller gives a different description", {})
        require(set(si) == responding, "get_system_info does not report "
                "exactly the responding chips",
                {"missing": sorted(map(list, responding - set(si)))[:6],
                 "extra": sorted(map(list, set(si) - responding))[:6]})
        wx = max(x for x, y in spec) + 1
        hy = max(y for x, y in spec) + 1
        require((si.width, si.height) == (wx, hy), "system dimensions are "
                "not those of the chips in the point-to-point table",
                {"got": [si.width, si.height], "expected": [wx, hy]})
        for c in sorted(responding):
            s = spec[c]
            ci = si[c]
            det = {"chip": list(c)}
            require(ci.num_cores == s["cores"], "wrong core count",
                    dict(det, got=ci.num_cores, expected=s["cores"]))
            require([int(a) for a in ci.core_states] ==
                    [STATE_VAL[n] for n in s["states"][:s["cores"]]],
                    "per-core states differ from the machine's", det)
            require(set(int(l) for l in ci.working_links) == set(s["links"]),
                    "working links differ from the machine's",
                    dict(det, got=sorted(int(l) for l in ci.working_links),
                         expected=s["links"]))
            require(ci.largest_free_sdram_block == s["sdram"] and
                    ci.largest_free_sram_block == s["sram"], "free memory "
                    "figures differ", det)
            require(ci.largest_free_rtr_mc_block == s["rtr"], "largest free "
                    "router block differs",
                    dict(det, got=ci.largest_free_rtr_mc_block,
                         expected=s["rtr"]))
            require(bool(ci.ethernet_up) == s["eth_up"] and
                    ci.ip_address == ".".join(map(str, s["ip"])) and
                    tuple(ci.local_ethernet_chip) == tuple(s["local_eth"]),
                    "Ethernet details differ",
                    dict(det, ip=ci.ip_address, eth=ci.ethernet_up,
                         local=list(ci.local_ethernet_chip)))
        # ---- the second description is the caller's to edit in place (a
        # flaky link struck out, a core marked as unusable): neither the
        # other chips, nor the first description, nor a later probe through
        # a new controller may show the edit
        if responding:
            ed = sorted(responding)[case["h"] % len(responding)]
            with sut("editing one chip's entry of a description"):
                ent = si_again[ed]
                if isinstance(ent.working_links, set):
                    ent.working_links.clear()
                    ent.working_links.add("struck out")
                if isinstance(ent.core_states, list):
                    ent.core_states.append("unusable")
            with sut("probing through a new controller"):
                si_new = w.controller().get_system_info()
            for what, d in (("the same description", si_again),
                            ("a description obtained earlier", si),
                            ("a later probe through a new controller",
                             si_new)):
                for c in sorted(responding):
                    if d is si_again and c == ed:
                        continue
                    s_ = spec[c]
                    require(set(d[c].working_links) == set(s_["links"]) and
                            list(d[c].core_states) ==
                            [STATE_VAL[n] for n in s_["states"][:s_["cores"]]],
                            "editing one chip's entry of a system "
                            "description in place changed what %s says "
                            "about a chip" % what,
                            {"edited": list(ed), "chip": list(c)})
        # ---- a chip that was silent answers again (it was busy, or its
        # board was reset): a later probe through the same controller
        # describes the machine as it is then
        if case["silent"]:
            bx, by = case["silent"][case["h"] % len(case["silent"])]
            back = m.chips[(bx, by)]
            back.silent = False
            code = getattr(back, "no_reply_code", None)
            back.no_reply_code = None
            with sut("probing again after a silent chip came back"):
                si_back = mc.get_system_info()
            back.silent = True
            back.no_reply_code = code
            require(set(si_back) == responding | {(bx, by)},
                    "a probe made after a silent chip came back (same "
                    "controller) does not report exactly the chips "
                    "responding then",
                    {"back": [bx, by],
                     "missing": sorted(map(list, (responding | {(bx, by)}) -
                                           set(si_back)))[:6],
                     "extra": sorted(map(list, set(si_back) - responding -
                                         {(bx, by)}))[:6]})
            cls.append("silent-chip-back")
        # ---- SystemInfo helpers
        all_xy = set((x, y) for x in range(wx) for y in range(hy))
        require(set(si.dead_chips()) == all_xy - responding and
                set(si.chips()) == responding, "dead_chips()/chips() are not "
                "the complement / the set of responding chips", {})
        links = set((x, y, l) for (x, y) in responding
                    for l in spec[(x, y)]["links"])
        require(set((x, y, int(l)) for x, y, l in si.links()) == links and
                set((x, y, int(l)) for x, y, l in si.dead_links()) ==
                set((x, y, l) for (x, y) in responding for l in range(6))
                - links, "links()/dead_links() differ from the machine", {})
        cores = set((x, y, p, STATE_VAL[spec[(x, y)]["states"][p]])
                    for (x, y) in responding
                    for p in range(spec[(x, y)]["cores"]))
        require(set((x, y, p, int(s)) for x, y, p, s in si.cores()) == cores,
                "cores() differs from the machine", {})
        some = sorted(all_xy)[:40]
        for c in some:
            require((c in si) == (c in responding), "__contains__(chip)", {})
            for l in Links:
                require(((c[0], c[1], l) in si) == ((c[0], c[1], int(l))
                                                    in links),
                        "__contains__(link)", {"link": [c[0], c[1], int(l)]})
            for p in (0, 1, 17):
                exp = c in responding and p < spec[c]["cores"]
                require(((c[0], c[1], p) in si) == exp, "__contains__(core)",
                        {"core": [c[0], c[1], p]})
        eth = set((c, ".".join(map(str, spec[c]["ip"]))) for c in responding
                  if spec[c]["eth_up"])
        require(set(si.ethernet_connected_chips()) == eth,
                "ethernet_connected_chips()", {})
        # ---- individual probes
        with sut("individual probes", (SCPError,)):
            p2p = mc.get_p2p_routing_table(0, 0)
            sver = mc.get_software_version(px, py, pcore)
            ip = mc.get_ip_address(px, py)
            wl = mc.get_working_links(px, py)
            nc = mc.get_num_working_cores(px, py)
            diag = mc.get_router_diagnostics(px, py)
            status = mc.get_processor_status(pcore, px, py)
            raw = mc.get_iobuf_bytes(pcore, px, py)
            text = mc.get_iobuf(pcore, px, py) if pr["text"] else None
            raw2 = (mc.get_iobuf_bytes(p2["core"], *p2["chip"]) if p2
                    else None)
        exp_p2p = dict(((x, y), m.p2p_entry(m.chips[(0, 0)], x, y))
                       for x in range(case["w"]) for y in range(case["h"]))
        require(dict((k, int(v)) for k, v in p2p.items()) == exp_p2p,
                "point-to-point table is decoded differently from the "
                "machine's", {"size": [case["w"], case["h"]],
                              "got_entries": len(p2p)})
        ver = case["version"]
        if isinstance(ver, list):
            ev, el = (ver[0], ver[1], 0), ""
        else:
            import re
            mt = re.match(r"^(\d+)\.(\d+)\.(\d+)(.*)$", ver)
            ev = tuple(int(g) for g in mt.groups()[:3])
            el = mt.group(4)
        require(tuple(sver.position) == (px, py) and sver.virt_cpu == pcore
                and sver.physical_cpu == pcore + 1 and
                tuple(sver.software_version) == ev and
                sver.software_version_labels == el and
                sver.buffer_size == case["buffer"] and
                sver.build_date == m.build_date and
                sver.version_string == case["name"],
                "software version reply decoded wrongly",
                {"got": repr(sver), "version": ver})
        s = spec[(px, py)]
        require(ip == (".".join(map(str, s["ip"])) if s["eth_up"] else None)
                and set(int(l) for l in wl) == set(s["links"]) and
                nc == s["cores"], "get_ip_address / get_working_links / "
                "get_num_working_cores differ from the machine",
                {"ip": ip, "links": sorted(int(l) for l in wl), "cores": nc})
        require(list(diag) == pr["diag"], "router counters differ", {})
        v = pr["vcpu"]
        exp_state = STATE_VAL[s["states"][pcore]] if pcore < s["cores"] else 0
        checks = [
            (list(status.registers), [v["r%d" % i] for i in range(8)]),
            (status.program_state_register, v["psr"]),
            (status.stack_pointer, v["sp"]), (status.link_register, v["lr"]),
            (int(status.rt_code), v["rt_code"]),
            (status.phys_cpu, v["phys_cpu"]),
            (int(status.cpu_state), exp_state),
            (status.mbox_ap_msg, v["mbox_ap_msg"]),
            (status.mbox_mp_msg, v["mbox_mp_msg"]),
            (status.mbox_ap_cmd, v["mbox_ap_cmd"]),
            (status.mbox_mp_cmd, v["mbox_mp_cmd"]),
            (status.sw_count, v["sw_count"]), (status.sw_file, v["sw_file"]),
            (status.sw_line, v["sw_line"]), (status.time, v["time"]),
            (status.app_name, v["app_name"]),
            (status.iobuf_address, addr), (status.app_id, v["app_id"]),
            (tuple(status.version), ((v["sw_ver"] >> 16) & 0xff,
                                     (v["sw_ver"] >> 8) & 0xff,
                                     v["sw_ver"] & 0xff)),
            (list(status.user_vars), [v["user%d" % i] for i in range(4)])]
        for i, (g, e) in enumerate(checks):
            require(g == e, "per-core status field differs from the "
                    "machine's", {"index": i, "got": repr(g),
                                  "expected": repr(e)})
        require(raw == b"".join(blocks), "console buffer is not the "
                "concatenation of the chained blocks",
                {"got": repr(raw[:40]), "blocks": len(blocks)})
        if text is not None:
            require(text == b"".join(blocks).decode("utf-8"), "get_iobuf", {})
        if p2:
            require(raw2 == b"".join(blocks2), "console buffer of a second "
                    "core (read with the same controller) is not the "
                    "concatenation of its chained blocks",
                    {"got": repr(raw2[:40]), "expected":
                     repr(b"".join(blocks2)[:40]),
                     "block_sizes": [pr["iobuf_size"], p2["iobuf_size"]]})
    if m.violations:
        raise Violation("malformed command: %s" % m.violations[0][0],
                        m.violations[0][1])
    # ---- derived place-and-route model
    with sut("build_machine / build_core_constraints"):
        machine = build_machine(si)
        cons = build_core_constraints(si)
        targets = build_routing_table_target_lengths(si)
    require((machine.width, machine.height) == (wx, hy) and
            set(machine) == responding, "build_machine does not contain "
            "exactly the responding chips", {})
    for c in responding:
        s = spec[c]
        r = machine[c]
        require(r[Cores] == s["cores"] and r[SDRAM] == s["sdram"] and
                r[SRAM] == s["sram"], "build_machine quantities differ from "
                "the description", {"chip": list(c)})
    require(set((x, y, int(l)) for x, y, l in machine.iter_links()) == links,
            "build_machine's working links differ from the description", {})
    require(targets == dict((c, spec[c]["rtr"]) for c in responding),
            "routing table target lengths are not the free-block figures",
            {})
    per_chip = dict((c, []) for c in responding)
    for k in cons:
        require(k.resource is Cores and k.reservation.step is None,
                "a core constraint reserves another resource", {})
        for c in (responding if k.location is None else [tuple(k.location)]):
            require(c in per_chip, "reservation for a chip that is not in "
                    "the machine", {"chip": list(c)})
            per_chip[c].append((k.reservation.start, k.reservation.stop))
    for c, ranges in per_chip.items():
        covered = []
        for a, b in ranges:
            covered += list(range(a, b))
        require(len(covered) == len(set(covered)), "core reservations of a "
                "chip overlap each other", {"chip": list(c),
                                            "ranges": ranges})
        busy = set(p for p in range(spec[c]["cores"])
                   if spec[c]["states"][p] != "idle")
        require(set(covered) == busy, "core reservations do not cover "
                "exactly the cores that are not idle",
                {"chip": list(c), "reserved": sorted(set(covered)),
                 "busy": sorted(busy)})
    # ---- nothing is placed on dead hardware or busy cores
    from rig.place_and_route.place.sequential import place
    from rig.place_and_route import allocate
    from rig.place_and_route.exceptions import InsufficientResourceError
    idle_total = sum(sum(1 for p in range(spec[c]["cores"])
                         if spec[c]["states"][p] == "idle")
                     for c in responding)
    vr = dict(("v%d" % i, {Cores: 1}) for i in range(min(idle_total, 40)))
    try:
        with sut("place+allocate on the derived model",
                 (InsufficientResourceError,)):
            pl = place(vr, [], machine, cons)
            al = allocate(vr, [], machine, cons, pl)
        for v, c in pl.items():
            sl = al[v][Cores]
            require(c in responding and all(
                spec[c]["states"][p] == "idle" and p < spec[c]["cores"]
                for p in range(sl.start, sl.stop)), "a vertex was put on a "
                "dead chip or a busy core", {"chip": list(c),
                                             "cores": [sl.start, sl.stop]})
    except InsufficientResourceError:
        cls.append("fragmented-idle-cores")
    # ---- the description is a dictionary the program may edit (a chip it
    # does not want to use is deleted): what is derived from it afterwards
    # follows the edit
    if len(responding) >= 2:
        victim = sorted(responding)[case["w"] % len(responding)]
        dead_before = set(si.dead_chips())
        with sut("editing the system description"):
            del si[victim]
            dead_after = set(si.dead_chips())
            machine2 = build_machine(si)
        require(dead_after == dead_before | {victim}, "dead_chips() of an "
                "edited system description does not list the chip that was "
                "deleted from it", {"deleted": list(victim)})
        require(victim not in machine2 and
                set(machine2) == responding - {victim},
                "build_machine of an edited system description does not "
                "contain exactly the chips left in it",
                {"deleted": list(victim)})
    patterns = set(tuple(spec[c]["states"][:spec[c]["cores"]])
                   for c in responding)
    dead_or_silent = len(all_xy - responding) > 0
    return {"nontrivial": dead_or_silent and len(patterns) >= 2,
            "classes": cls + (["silent"] if case["silent"] else []) +
                       (["sparse"] if case["w"] > 12 or case["h"] > 12
                        else []) + ["iobuf%d" % min(len(blocks), 40)] + (
                            ["second-iobuf-other-size"] if p2 and
                            p2["iobuf_size"] != pr["iobuf_size"] else [])}


CLAUSES = [
    Clause("probe", check_state, strategy=strat_state,
           rule="generated machine states (up to 6x6 / 12x12 dense, sparse "
                "populations in up to 255x255 addressing; dead "
                "and silent chips, per-chip links, core counts and states "
                "incl. states shared by every chip, free-memory and router "
                "figures, Ethernet details, IOBUF chains of 0-4 blocks, all "
                "VCPU fields, both version encodings); non-trivial = a dead "
                "or silent chip and >= 2 distinct core-state patterns",
           examples={"quick": 300, "thorough": 3000},
           shards={"quick": 8, "thorough": 16}),
]
