"""C09 Application loading returns only when every requested core is loaded."""
import os
import shutil
import tempfile

from hypothesis import strategies as st

from vf.core import Clause, Violation, require, sut
from vf.sim import scamp
from vf.sim.world import World

PROPERTY_ID = "C09"
LEVEL = "fault_enumeration"
IMPORTS = ["rig.machine_control", "rig.machine_control.regions"]
ASSUMPTIONS = [
    "the simulated machine assembles each flood fill (start, core selects, "
    "data blocks, end) and loads the reassembled image on the selected cores "
    "of every chip that did not miss the fill; per fill a drawn set of chips "
    "misses it silently",
    "binaries are whole words long and at most 255 blocks (widths of the "
    "block-count and word-count fields)",
    "cores already waiting under the same application id are only generated "
    "with use_count=False (the counting mode documents that the targets are "
    "all cores of the application); they may be started by the final start "
    "signal, their image and id must not change",
    "a fill's well-formedness is asserted by the model: block count, "
    "numbering, size, placement, core selects strictly increasing between "
    "start and end, fill id even in 2..252 and different from the last one",
]


@st.composite
def strat_load(draw, tier):
    big = tier == "thorough"
    buf = draw(st.sampled_from([64, 128, 256, 256, 512, 104, 264]))
    w = h = draw(st.sampled_from([2, 4, 8]))
    chips = [(x, y) for x in range(w) for y in range(h)]
    nbin = draw(st.integers(1, 3))
    used = set()
    amap = []
    for b in range(nbin):
        blocks = draw(st.sampled_from([0, 1, 1, 2, 3, 5]))
        extra = draw(st.sampled_from([0, 4, 8, buf - 4, buf // 2]))
        size = max(4, blocks * buf + extra)
        if draw(st.integers(0, 24)) == 0:
            # the largest binaries a flood fill can announce: 255 blocks (the
            # last one full or partial), and 254
            size = draw(st.sampled_from([255 * buf, 254 * buf + 4,
                                         254 * buf, 255 * buf - 4]))
        targets = {}
        style = draw(st.sampled_from(["sparse", "block", "mixed"]))
        sel = []
        if style in ("block", "mixed") and w >= 4:
            bx = 4 * draw(st.integers(0, w // 4 - 1))
            by = 4 * draw(st.integers(0, h // 4 - 1))
            sel += [(x, y) for x in range(bx, bx + 4)
                    for y in range(by, by + 4)]
            if draw(st.booleans()):
                sel.pop(draw(st.integers(0, len(sel) - 1)))
        if style in ("sparse", "mixed") or not sel:
            sel += draw(st.lists(st.sampled_from(chips), min_size=1,
                                 max_size=5, unique=True))
        cores = draw(st.sets(st.integers(1, 17), min_size=1, max_size=4))
        for c in sorted(set(sel)):
            cs = set(cores)
            if draw(st.integers(0, 4)) == 0:
                cs = draw(st.sets(st.integers(1, 17), min_size=1,
                                  max_size=3))
            cs = set(p for p in cs if (c, p) not in used)
            if cs:
                targets["%d,%d" % c] = sorted(cs)
                used.update((c, p) for p in cs)
        if targets:
            # a chip may be listed with no cores at all (what
            # build_application_map gives for a vertex without cores)
            if draw(st.integers(0, 3)) == 0:
                c = draw(st.sampled_from(chips))
                targets.setdefault("%d,%d" % c, [])
            amap.append({"size": size, "fill": draw(st.integers(0, 255)),
                         "targets": targets})
    if not amap:
        amap = [{"size": 8, "fill": 1, "targets": {"0,0": [1]}}]
    if len(amap) >= 2 and draw(st.integers(0, 3)) == 0:
        # a map assembled from several sources names one and the same file
        # under two spellings (with ./, through a symbolic link)
        j = draw(st.integers(1, len(amap) - 1))
        amap[j]["alias_of"] = draw(st.integers(0, j - 1))
        amap[j]["spelling"] = draw(st.sampled_from(["dot", "symlink",
                                                    "dotdot"]))
    n_tries = draw(st.sampled_from([0, 1, 2, 2, 3]))
    nfills = (n_tries + 2) * len(amap)
    involved = sorted(set(k for a in amap for k in a["targets"]))
    miss = []
    persistent = draw(st.integers(0, 5)) == 0
    always = draw(st.lists(st.sampled_from(involved), max_size=2,
                           unique=True)) if persistent else []
    for _ in range(nfills):
        if draw(st.integers(0, 2)) == 0:
            miss.append(sorted(set(draw(st.lists(st.sampled_from(involved),
                                                 max_size=3)) + always)))
        else:
            miss.append(list(always))
    use_count = draw(st.sampled_from([True, True, False, None]))
    pre = []
    if use_count is False and draw(st.booleans()):
        for c in draw(st.lists(st.sampled_from(chips), max_size=2,
                               unique=True)):
            p = draw(st.integers(1, 17))
            if (c, p) not in used:
                pre.append([c[0], c[1], p])
    # requested cores that already hold their binary and wait under the same
    # application id (an earlier load of the same map that was interrupted);
    # only in the per-core verification mode, see `pre`
    preloaded = []
    if use_count is False and used and draw(st.booleans()):
        preloaded = [[c[0], c[1], p] for c, p in draw(st.lists(
            st.sampled_from(sorted(used)), max_size=3, unique=True))]
    second = None
    if draw(st.integers(0, 2)) == 0:
        # a later load on the same controller of a binary with the same file
        # name but rebuilt contents, to cores not used so far
        free = [(c, p) for c in chips for p in (3, 9, 16)
                if (c, p) not in used and [c[0], c[1], p] not in pre]
        picks = draw(st.lists(st.sampled_from(free), min_size=1, max_size=3,
                              unique=True)) if free else []
        if draw(st.booleans()):
            # exactly the chips the first binary went to, other cores
            chips0 = [tuple(map(int, k.split(",")))
                      for k in sorted(amap[0]["targets"])]
            same = []
            for c in chips0:
                ps = [p for cc, p in free if cc == c]
                if ps:
                    same.append((c, draw(st.sampled_from(ps))))
            if len(same) == len(chips0):
                picks = same
        if picks:
            second = {"size": 4 * draw(st.integers(1, 2 * buf // 4)),
                      "fill": draw(st.integers(0, 255)),
                      "targets": [[c[0], c[1], p] for c, p in picks],
                      "app_id": draw(st.sampled_from([17, 200]))}
    return {"buffer": buf, "w": w, "map": amap, "miss": miss,
            "second": second, "preloaded": preloaded,
            "vcpu_bases": draw(st.integers(0, 2)) == 0,
            "app_id": draw(st.sampled_from([66, 1, 255, 30])),
            # the flag is also given the way C-minded callers give it (0 / 1)
            "wait": draw(st.sampled_from([False, False, True, None, 0, 1])),
            "n_tries": n_tries, "use_count": use_count, "pre": pre,
            # requested cores that are still busy with something older (an
            # application that was never stopped): run / exit, old contents
            "busy": [[c[0], c[1], p, draw(st.sampled_from([7, 11]))]
                     for c, p in draw(st.lists(st.sampled_from(sorted(used)),
                                               max_size=2, unique=True))]
            if used and draw(st.integers(0, 2)) == 0 else [],
            # contextual arguments handed over through a context block
            "ctx": draw(st.lists(st.sampled_from(["app_id", "wait",
                                                  "n_tries"]),
                                 min_size=1, max_size=3, unique=True)),
            "style": draw(st.sampled_from(["map", "map", "pair",
                                           "context"]))}


def check_load(case):
    from rig.machine_control.machine_controller import SpiNNakerLoadingError
    m = scamp.Machine(case["w"], case["w"],
                      buffer_size=case["buffer"]).populate()
    if case.get("vcpu_bases"):
        # the per-core blocks live at a chip-specific address
        for i, c in enumerate(sorted(m.chips.values(),
                                     key=lambda c: (c.x, c.y))):
            c.vcpu_base = m.vcpu_base + 0x880 * (i % 5)
    app = case["app_id"]
    for x, y, p in case["pre"]:
        c = m.chips[(x, y)].cores[p]
        c.state, c.app_id, c.image = 5, app, b"earlier"
    for x, y, p, state in case.get("busy", []):
        c = m.chips[(x, y)].cores[p]
        c.state, c.app_id, c.image = state, 77, b"old!"
    m.sync(router=False, p2p=False)
    m.miss_plan = [set(tuple(map(int, k.split(","))) for k in s)
                   for s in case["miss"]]
    tmp = tempfile.mkdtemp(prefix="vf-c09-")
    try:
        images = {}
        amap = {}
        wanted = {}                     # (x, y, p) -> image
        for i, a in enumerate(case["map"]):
            path = os.path.join(tmp, "app%d.aplx" % i)
            img = bytes((a["fill"] + 3 * j + i) & 0xff
                        for j in range(a["size"]))
            k = a.get("alias_of")
            while k is not None and case["map"][k].get("alias_of") is not None:
                k = case["map"][k]["alias_of"]
            if k is not None:
                # another spelling of the file of entry k
                img = images[os.path.join(tmp, "app%d.aplx" % k)]
                if a["spelling"] == "dot":
                    path = os.path.join(tmp, ".", "app%d.aplx" % k)
                elif a["spelling"] == "dotdot":
                    path = os.path.join(tmp, "sub%d" % i, "..",
                                        "app%d.aplx" % k)
                    os.mkdir(os.path.join(tmp, "sub%d" % i))
                else:
                    os.symlink(os.path.join(tmp, "app%d.aplx" % k), path)
            else:
                with open(path, "wb") as f:
                    f.write(img)
            images[path] = img
            amap[path] = dict((tuple(map(int, k.split(","))), set(v))
                              for k, v in a["targets"].items())
            for (x, y), cores in amap[path].items():
                for p in cores:
                    wanted[(x, y, p)] = img
        busy = set((x, y, p) for x, y, p, _ in case.get("busy", []))
        for x, y, p in case.get("preloaded", []):
            if (x, y, p) in wanted and (x, y, p) not in busy:
                c = m.chips[(x, y)].cores[p]
                c.state, c.app_id, c.image = 5, app, wanted[(x, y, p)]
                m.chips[(x, y)].sync_core(p)
        before = dict(((x, y, p), (c.state, c.app_id, c.image))
                      for (x, y), chip in m.chips.items()
                      for p, c in enumerate(chip.cores))
        kwargs = {"n_tries": case["n_tries"]}
        if case["wait"] is not None:
            kwargs["wait"] = case["wait"]
        if case["use_count"] is not None:
            kwargs["use_count"] = case["use_count"]
        wait = bool(case["wait"])
        with World(m) as w:
            mc = w.controller()
            try:
                with sut("load_application", (SpiNNakerLoadingError,)):
                    if case["style"] == "pair" and len(amap) == 1:
                        (path, targets), = amap.items()
                        mc.load_application(path, targets, app_id=app,
                                            **kwargs)
                    elif case["style"] == "context":
                        ctx = {}
                        kw = dict(kwargs, app_id=app)
                        for name in case.get("ctx", ["app_id"]):
                            if name in kw:
                                ctx[name] = kw.pop(name)
                        with mc(**ctx):
                            mc.load_application(amap, **kw)
                    else:
                        mc.load_application(amap, app_id=app, **kwargs)
                error = None
            except SpiNNakerLoadingError as e:
                error = e
            second_result = None
            sec = case.get("second")
            if error is None and sec and not m.violations:
                first_fills = len(m.fills)
                path0 = sorted(amap)[0]
                img2 = bytes((sec["fill"] + 5 * j + 1) & 0xff
                             for j in range(sec["size"]))
                with open(path0, "wb") as f:
                    f.write(img2)
                t2 = {}
                for x, y, p in sec["targets"]:
                    t2.setdefault((x, y), set()).add(p)
                m.miss_plan = []
                with sut("second load_application",
                         (SpiNNakerLoadingError,)):
                    mc.load_application(path0, t2, app_id=sec["app_id"],
                                        wait=True)
                second_result = (first_fills, img2)
        if m.violations:
            raise Violation("malformed flood fill: %s" % m.violations[0][0],
                            dict(m.violations[0][1]))
        # ---- every fill only selects requested, still missing cores
        loaded_so_far = set()
        per_attempt = {}
        n_first = second_result[0] if second_result else len(m.fills)
        if second_result:
            img2 = second_result[1]
            for x, y, p in case["second"]["targets"]:
                c = m.chips[(x, y)].cores[p]
                require(c.image == img2 and
                        c.app_id == case["second"]["app_id"] and
                        c.state == 5, "a later load of a rebuilt binary with "
                        "the same file name did not put the new contents on "
                        "the requested cores",
                        {"core": [x, y, p], "state": c.state,
                         "app_id": c.app_id,
                         "holds_old_image": c.image == images.get(
                             sorted(amap)[0])})
        second_cores = set(tuple(t) for t in
                           (case["second"]["targets"] if second_result
                            else []))
        all_fills = m.fills
        m_fills = all_fills[:n_first]
        for f in m_fills:
            sel = set((x, y, p) for (x, y), ps in f["selected"].items()
                      for p in ps)
            img = f["image"]
            require(f["app_id"] == app, "a fill carries another application "
                    "id", {"got": f["app_id"], "expected": app})
            require(f["flags"] & 1, "a fill does not ask the cores to wait "
                    "for the start signal", {})
            for core in sel:
                require(core in wanted and wanted[core] == img, "a fill "
                        "selects a core that was not requested for its "
                        "binary", {"core": list(core)})
                require(core not in loaded_so_far, "a fill re-sends to a "
                        "core that is already loaded", {"core": list(core)})
            loaded_so_far.update(tuple(c) for c in f["loaded"])
        nfills_allowed = (case["n_tries"] + 1) * len(amap)
        require(len(m_fills) <= nfills_allowed, "more flood fills were sent "
                "than the configured number of attempts allows",
                {"fills": len(m_fills), "allowed": nfills_allowed})
        # ---- outcome
        state_now = dict(((x, y, p), (c.state, c.app_id, c.image))
                         for (x, y), chip in m.chips.items()
                         for p, c in enumerate(chip.cores))
        pre = set(tuple(c) for c in case["pre"])
        for core, (st_, a, img) in state_now.items():
            if core in wanted or core in second_cores:
                continue
            if core in pre:
                require((a, img) == before[core][1:], "a core that was not "
                        "requested had its image or application id changed",
                        {"core": list(core)})
            else:
                require((st_, a, img) == before[core], "a core that was not "
                        "requested was loaded or changed",
                        {"core": list(core), "before": repr(before[core][:2]),
                         "after": repr((st_, a))})
        missing = set(c for c in wanted
                      if state_now[c][2] != wanted[c] or state_now[c][1] != app
                      or state_now[c][0] not in (5, 7))
        started = any(s[0] == "signal" and s[1] == 3 and s[2] == app
                      for s in m.signals)
        missed_any = any(f["missed"] and any(
            tuple(c) in set((x, y) for x, y, p in wanted)
            for c in f["missed"]) for f in m_fills)
        cls = ["fills=%d" % min(len(m_fills), 6)] + \
            (["second-load"] if second_result else [])
        if error is None:
            require(not missing, "load_application returned normally "
                    "although a requested core does not hold its binary",
                    {"cores": sorted(map(list, missing))[:6]})
            for c in wanted:
                exp = 5 if wait else 7
                require(state_now[c][0] == exp, "after a normal return a "
                        "requested core is not %s" %
                        ("waiting" if wait else "running"),
                        {"core": list(c), "state": state_now[c][0]})
            require(started == (not wait), "start signal " +
                    ("sent although asked to wait" if wait
                     else "not sent"), {})
            cls.append("loaded")
        else:
            reported = set((x, y, p) for app_, t in error.app_map.items()
                           for (x, y), ps in t.items() for p in ps)
            not_waiting = set(c for c in wanted if state_now[c][0] != 5 or
                              state_now[c][2] != wanted[c])
            require(reported == not_waiting, "SpiNNakerLoadingError does not "
                    "name exactly the cores that are still not loaded",
                    {"reported": sorted(map(list, reported))[:8],
                     "not_loaded": sorted(map(list, not_waiting))[:8]})
            for app_, t in error.app_map.items():
                for (x, y), ps in t.items():
                    for p in ps:
                        require(wanted.get((x, y, p)) == images.get(app_),
                                "the error names a core under the wrong "
                                "binary", {"core": [x, y, p]})
            require(not started, "start signal sent although loading "
                    "failed", {})
            require(len(m_fills) == nfills_allowed or
                    len(m_fills) >= case["n_tries"] + 1,
                    "loading gave up before using its attempts",
                    {"fills": len(m_fills), "n_tries": case["n_tries"]})
            cls.append("loading-error")
        chips_in_map = set((x, y) for x, y, p in wanted)
        return {"nontrivial": missed_any and len(chips_in_map) >= 2,
                "documented": error is not None,
                "classes": cls + (["missed-a-fill"] if missed_any else []) +
                           (["busy-target"] if case.get("busy") else []) +
                           (["one-file-two-spellings"] if any(
                               a.get("alias_of") is not None
                               for a in case["map"]) else []) +
                           (["wait-by-context"] if case["style"] == "context"
                            and "wait" in case.get("ctx", []) and
                            case["wait"] is not None else []) +
                           ["use_count=%s" % case["use_count"]]}
    finally:
        shutil.rmtree(tmp, ignore_errors=True)


CLAUSES = [
    Clause("load", check_load, strategy=strat_load,
           rule="application maps of 1-3 binaries (sizes around multiples of "
                "the buffer size) over sparse chips and (nearly) full 4x4 "
                "blocks of a 2x2/4x4/8x8 machine x per-fill sets of chips "
                "that miss the fill x wait x n_tries 0-3 x both verification "
                "modes; non-trivial = some chip of the map missed a fill and "
                "the map has >= 2 chips",
           examples={"quick": 900, "thorough": 6000},
           shards={"quick": 8, "thorough": 16}),
]
