"""C05 Allocated resource ranges are exact, in range, disjoint, unreserved."""
from hypothesis import strategies as st

from vf.core import Clause, Violation, require, sut
from vf.gen import pr

PROPERTY_ID = "C05"
LEVEL = "exploration"
IMPORTS = ["rig.place_and_route", "rig.place_and_route.allocate.greedy"]
ASSUMPTIONS = [
    "placements are feasible by construction: per chip and resource the sum "
    "of the requests <= capacity - reserved amount",
    "reservations are pairwise disjoint, inside the range of every chip they "
    "apply to (global ones inside the smallest chip) and on live chips "
    "(documented precondition of ReserveResourceConstraint)",
    "vertices only ask for resources the machine defines",
    "completeness is asserted when there is no alignment constraint and, for "
    "each chip separately, the reservations applying to it form a prefix "
    "and/or a suffix of [0, capacity)",
]


@st.composite
def segments(draw, limit, max_n):
    """Disjoint [start, stop) ranges inside [0, limit), possibly adjacent."""
    out = []
    pos = 0
    for _ in range(draw(st.integers(0, max_n))):
        gap = draw(st.sampled_from([0, 0, 1, 2, 3]))
        ln = draw(st.integers(1, 4))
        if pos + gap + ln > limit:
            break
        out.append([pos + gap, pos + gap + ln])
        pos = pos + gap + ln
    return out


def _overlaps(a, b):
    return max(a[0], b[0]) < min(a[1], b[1])


@st.composite
def strat_alloc(draw, tier, ends_only=False):
    big = tier == "thorough"
    m = draw(pr.machine(4 if big else 3, 4 if big else 3, faults=True,
                        resources=draw(st.one_of(
                            st.fixed_dictionaries({"Cores": st.integers(1, 18)}),
                            st.fixed_dictionaries({
                                "Cores": st.integers(0, 18),
                                "SDRAM": st.integers(0, 40)}),
                            st.fixed_dictionaries({
                                "Cores": st.integers(1, 18),
                                "SDRAM": st.integers(0, 40),
                                "U": st.integers(0, 9)})))))
    m["dead_links"] = []
    chips = pr.live_chips(m)
    names = sorted(m["resources"])
    mincap = dict((r, min([pr.chip_capacity(m, c)[r] for c in chips] +
                          [m["resources"][r]])) for r in names)
    reservations = []          # {"res", "start", "stop", "loc"}
    per_chip = dict((c, dict((r, []) for r in names)) for c in chips)
    # a global reservation can only be a suffix of every chip's range if all
    # chips (and the machine-wide default) have the same capacity
    same_caps = dict((r, set(pr.chip_capacity(m, c)[r] for c in chips) ==
                      {mincap[r]}) for r in names)
    used_chips = draw(st.lists(st.sampled_from(chips), min_size=1,
                               max_size=min(len(chips), 4), unique=True))
    for r in names:
        if ends_only:
            # global prefix, (global suffix only if all chips are equal)
            g = []
            a = draw(st.integers(0, min(3, mincap[r])))
            pieces = draw(st.integers(1, 2))
            if a:
                cut = draw(st.integers(0, a)) if pieces == 2 else a
                g += [s for s in ([0, cut], [cut, a]) if s[1] > s[0]]
            if same_caps[r] and draw(st.booleans()):
                b = draw(st.integers(0, min(3, mincap[r] - a)))
                if b:
                    g.append([mincap[r] - b, mincap[r]])
        else:
            g = draw(segments(mincap[r], 4))
        g = draw(st.permutations(g))
        for s in g:
            reservations.append({"res": r, "start": s[0], "stop": s[1],
                                 "loc": None})
            for c in chips:
                per_chip[c][r].append(s)
    for c in used_chips:
        for r in names:
            cap = pr.chip_capacity(m, c)[r]
            if ends_only:
                lo = max([s[1] for s in per_chip[c][r] if s[0] == 0 or
                          any(t[1] == s[0] for t in per_chip[c][r])] + [0]) \
                    if any(s[0] == 0 for s in per_chip[c][r]) else 0
                # recompute prefix end robustly
                lo = 0
                changed = True
                while changed:
                    changed = False
                    for s in per_chip[c][r]:
                        if s[0] == lo and s[1] > lo:
                            lo = s[1]
                            changed = True
                hi = cap
                changed = True
                while changed:
                    changed = False
                    for s in per_chip[c][r]:
                        if s[1] == hi and s[0] < hi:
                            hi = s[0]
                            changed = True
                cand = []
                a = draw(st.integers(0, min(2, max(0, hi - lo))))
                if a:
                    cand.append([lo, lo + a])
                b = draw(st.integers(0, min(2, max(0, hi - lo - a))))
                if b:
                    cand.append([hi - b, hi])
            else:
                cand = draw(segments(cap, 3))
            for s in cand:
                if any(_overlaps(s, t) for t in per_chip[c][r]):
                    continue
                per_chip[c][r].append(s)
                reservations.append({"res": r, "start": s[0], "stop": s[1],
                                     "loc": list(c)})
    if draw(st.integers(0, 2)) == 0:
        # null reservations (slice(a, a); the repository's tests pass
        # slice(0, 0)): they reserve nothing. They sit where another
        # reservation of the resource starts or ends, or at the ends of the
        # range (anywhere when reservations are not confined to the ends)
        for _ in range(draw(st.integers(1, 3))):
            r = draw(st.sampled_from(names))
            loc = draw(st.sampled_from([None] + used_chips))
            applying = [t for t in reservations if t["res"] == r and
                        (t["loc"] is None or (loc is not None and
                                              tuple(t["loc"]) == tuple(loc)))]
            here = [x for t in applying for x in (t["start"], t["stop"])
                    if x <= mincap[r]]
            spots = sorted(set(here + [0])) if ends_only else \
                sorted(set(here + [0, mincap[r]] +
                           list(range(0, mincap[r] + 1))))
            if ends_only:
                # only the start of a prefix piece / end of a suffix piece
                # are certainly outside every request
                spots = [x for x in spots if x == 0 or any(
                    t["start"] == x for t in applying)]
            a = draw(st.sampled_from(spots))
            reservations.append({"res": r, "start": a, "stop": a,
                                 "loc": None if loc is None else list(loc)})
    reservations = draw(st.permutations(reservations))
    # vertices, feasible by construction
    vertices = []
    n = 0
    fill = draw(st.sampled_from(["loose", "tight", "tight"]))
    for c in used_chips:
        free = dict((r, pr.chip_capacity(m, c)[r] -
                     sum(s[1] - s[0] for s in per_chip[c][r]))
                    for r in names)
        for _ in range(draw(st.integers(0, 5))):
            needs = {}
            for r in names:
                if draw(st.integers(0, 4)) == 0:
                    continue          # resource not mentioned at all
                q = draw(st.integers(0, min(free[r], 6)))
                if fill == "tight" and draw(st.booleans()):
                    q = min(free[r], max(q, draw(st.integers(0, free[r]))))
                needs[r] = q
                free[r] -= q
            vertices.append({"name": "v%d" % n, "chip": list(c),
                             "needs": needs})
            n += 1
    vertices = draw(st.permutations(vertices))
    align = {}
    if not ends_only and draw(st.booleans()):
        for r in names:
            if draw(st.booleans()):
                align[r] = draw(st.sampled_from([1, 2, 4, 7, 64]))
    return {"machine": m, "vertices": vertices, "reservations": reservations,
            "align": align, "vkind": draw(st.sampled_from(pr.VERTEX_KINDS)),
            "ends_only": ends_only,
            # constraints given as instances of the caller's own subclasses
            "subcls": draw(st.integers(0, 3)) == 0,
            # user-defined resources identified by equal but distinct objects
            "fresh_ids": draw(st.integers(0, 3)) == 0,
            "scale": draw(st.sampled_from([1, 1, 1, 1, 1, 2 ** 54 + 1,
                                           10 ** 18 + 9]))}


def strat_free(tier):
    return strat_alloc(tier, False)


def strat_ends(tier):
    return strat_alloc(tier, True)


def _scaled(case, K):
    """The same problem with every quantity of the non-core resources
    multiplied by K (ranges, needs, reservations and alignments alike)."""
    import copy
    c = copy.deepcopy(case)
    m = c["machine"]
    for r in m["resources"]:
        if r != "Cores":
            m["resources"][r] *= K
    for e in m["exceptions"]:
        for r in e[2]:
            if r != "Cores":
                e[2][r] *= K
    for v in c["vertices"]:
        for r in v["needs"]:
            if r != "Cores":
                v["needs"][r] *= K
    for res in c["reservations"]:
        if res["res"] != "Cores":
            res["start"] *= K
            res["stop"] *= K
    for r in c["align"]:
        if r != "Cores":
            c["align"][r] *= K
    c["scale"] = 1
    return c


def check_alloc(case):
    if case.get("scale", 1) != 1:
        # quantities far beyond 2**53 (a generic resource may count bytes of
        # a 64-bit space): integer arithmetic must stay exact
        out = check_alloc(_scaled(case, case["scale"]))
        out["classes"] = out.get("classes", []) + ["huge-quantities"]
        return out
    from rig.place_and_route import allocate
    from rig.place_and_route.allocate.greedy import allocate as greedy
    from rig.place_and_route.constraints import (ReserveResourceConstraint,
                                                 AlignResourceConstraint)
    from rig.place_and_route.exceptions import InsufficientResourceError
    m = case["machine"]
    pr._fresh = bool(case.get("fresh_ids"))
    machine = pr.build_machine(m)
    names = [v["name"] for v in case["vertices"]]
    vobj = pr.vertex_objects(names, case["vkind"])
    vr = {}
    placements = {}
    for v in case["vertices"]:
        vr[vobj[v["name"]]] = pr.res_dict(v["needs"])
        placements[vobj[v["name"]]] = tuple(v["chip"])
    constraints = []
    sub = case.get("subcls", False)
    ReserveResourceConstraint = pr.constraint_class(ReserveResourceConstraint,
                                                    sub)
    AlignResourceConstraint = pr.constraint_class(AlignResourceConstraint, sub)
    for r in case["reservations"]:
        constraints.append(ReserveResourceConstraint(
            pr.resource(r["res"]), slice(r["start"], r["stop"]),
            None if r["loc"] is None else tuple(r["loc"])))
    for r, a in sorted(case["align"].items()):
        constraints.append(AlignResourceConstraint(pr.resource(r), a))
    fn = allocate if len(names) % 2 == 0 else greedy
    try:
        with sut("allocate", (InsufficientResourceError,)):
            out = fn(vr, [], machine, constraints, placements)
    except InsufficientResourceError as e:
        require(not case["ends_only"], "allocate fails with "
                "InsufficientResourceError although the placement is "
                "feasible, nothing is aligned and every chip's reservations "
                "sit at the ends of its range", {"error": str(e)})
        return {"documented": True, "classes": ["insufficient"]}
    require(isinstance(out, dict), "allocate does not return a dict", {})
    require(set(out) == set(vobj.values()), "allocation does not cover "
            "exactly the placed vertices",
            {"missing": [n for n in names if vobj[n] not in out]})
    per_chip = {}
    nt = False
    for v in case["vertices"]:
        got = out[vobj[v["name"]]]
        needs = v["needs"]
        require(set(got) == set(pr.resource(r) for r in needs),
                "allocation of a vertex does not list exactly the resources "
                "it asked for", {"vertex": v["name"], "asked": sorted(needs),
                                 "got": [pr.resource_name(r) for r in got]})
        cap = pr.chip_capacity(m, v["chip"])
        for r, q in needs.items():
            s = got[pr.resource(r)]
            det = {"vertex": v["name"], "chip": v["chip"], "resource": r,
                   "asked": q, "got": repr(s), "capacity": cap[r]}
            require(isinstance(s, slice) and s.step is None,
                    "allocation is not a contiguous slice", det)
            require(s.stop - s.start == q, "allocated range does not have "
                    "the requested size", det)
            require(0 <= s.start and s.stop <= cap[r], "allocated range "
                    "leaves the chip's range for the resource", det)
            a = case["align"].get(r, 1)
            require(s.start % a == 0, "allocated range does not start on "
                    "the required alignment", dict(det, alignment=a))
            if q > 0:
                for res in case["reservations"]:
                    if res["res"] == r and (res["loc"] is None or
                                            res["loc"] == v["chip"]):
                        require(not _overlaps((s.start, s.stop),
                                              (res["start"], res["stop"])),
                                "allocated range overlaps a reserved range",
                                dict(det, reservation=res))
                per_chip.setdefault((tuple(v["chip"]), r), []).append(
                    (s.start, s.stop, v["name"]))
    for (chip, r), ranges in per_chip.items():
        ranges.sort()
        for a, b in zip(ranges, ranges[1:]):
            require(a[1] <= b[0], "two vertices on one chip were given "
                    "overlapping ranges", {"chip": list(chip), "resource": r,
                                           "a": list(a), "b": list(b)})
        if len(ranges) >= 2 and any(
                res["res"] == r and (res["loc"] is None or
                                     tuple(res["loc"]) == chip)
                for res in case["reservations"]):
            nt = True
    return {"nontrivial": nt,
            "classes": (["aligned"] if case["align"] else []) +
                       (["null-reservation"] if any(
                           t["start"] == t["stop"]
                           for t in case["reservations"]) else []) +
                       ["ends-only" if case["ends_only"] else "free-layout"]}


@st.composite
def strat_sequence(draw, tier):
    """Several allocations made one after another in one process; nothing of
    an earlier call (alignments, reservations) may apply to a later one."""
    n = draw(st.integers(2, 4))
    cases = []
    for i in range(n):
        last = i == n - 1
        if last or draw(st.integers(0, 2)) == 0:
            cases.append(draw(strat_alloc(tier, ends_only=True)))
        else:
            cases.append(draw(strat_alloc(tier)))
    return {"calls": cases}


def check_sequence(case):
    nt = False
    classes = set()
    for i, call in enumerate(case["calls"]):
        try:
            out = check_alloc(call)
        except Violation as v:
            raise Violation("call %d of %d in one process: %s"
                            % (i + 1, len(case["calls"]), v.message),
                            v.details)
        classes.update(out.get("classes", []))
        if i and out.get("nontrivial"):
            nt = True
    aligned_first = any(c["align"] for c in case["calls"][:-1])
    return {"nontrivial": nt and aligned_first,
            "classes": sorted(classes) +
            (["after-aligned-call"] if aligned_first else [])}


def enum_many(tier, shard, nshards):
    """A request that has to be pushed past very many reserved ranges."""
    counts = [300, 1100, 2500] + ([10000] if tier == "thorough" else [])
    i = 0
    for n in counts:
        for gap, size, loc in ((0, 1, None), (1, 2, [0, 0]), (3, 4, None)):
            i += 1
            if i % nshards != shard:
                continue
            step = 2 + gap
            res = [{"res": "U", "start": step * k + gap,
                    "stop": step * k + gap + 2, "loc": loc}
                   for k in range(n)]
            yield {"machine": {"w": 1, "h": 1, "mesh": True,
                               "resources": {"U": step * n + 3 * size,
                                             "Cores": 2},
                               "exceptions": [], "dead_chips": [],
                               "dead_links": []},
                   "vertices": [{"name": "v0", "needs": {"U": size},
                                 "chip": [0, 0]},
                                {"name": "v1", "needs": {"U": size,
                                                         "Cores": 1},
                                 "chip": [0, 0]}],
                   "reservations": res, "align": {}, "vkind": "str",
                   "ends_only": False, "subcls": False, "scale": 1}


def check_many(case):
    out = check_alloc(case)
    require(not out.get("documented"), "allocate fails although two requests "
            "fit behind the last of many reserved ranges",
            {"reservations": len(case["reservations"])})
    out["nontrivial"] = True
    out["classes"] = ["reservations>=%d" % (
        1000 if len(case["reservations"]) >= 1000 else 100)]
    return out


CLAUSES = [
    Clause("many-reservations", check_many, enumerate=enum_many,
           rule="300 / 1100 / 2500 (thorough: 10000) reserved ranges of one "
                "resource, adjacent or with gaps smaller than the request, "
                "global or for the chip: both requests must be placed behind "
                "them", shards={"quick": 3, "thorough": 4}),
    Clause("sound", check_alloc, strategy=strat_free,
           rule="feasible placements x free reservation layouts (adjacent, "
                "interleaved with gaps, global and per-chip) x alignments; "
                "non-trivial = some chip holds >= 2 vertices needing a "
                "resource that has a reservation applying to that chip",
           examples={"quick": 1500, "thorough": 20000},
           shards={"quick": 8, "thorough": 16}),
    Clause("complete", check_alloc, strategy=strat_ends,
           rule="as 'sound' but no alignment and reservations only as "
                "prefix/suffix of each chip's range: allocation must succeed",
           examples={"quick": 1500, "thorough": 20000},
           shards={"quick": 8, "thorough": 16}),
    Clause("sequence", check_sequence, strategy=strat_sequence,
           rule="2-4 allocate calls in one process (free layouts with "
                "alignments, then an ends-only call that must succeed), each "
                "judged on its own; non-trivial = a call with an alignment "
                "precedes a non-trivial call",
           examples={"quick": 400, "thorough": 6000},
           shards={"quick": 8, "thorough": 16}, isolate=True),
]
