"""C11 Hexagonal mesh and torus path functions return true shortest paths."""
import itertools

from hypothesis import strategies as st

from vf.core import Clause, Violation, require, sut
from vf.oracle import hexgrid

PROPERTY_ID = "C11"
LEVEL = "exploration"
IMPORTS = ["rig.geometry", "rig.links", "rig.place_and_route.route.utils"]
ASSUMPTIONS = [
    "graph distance on the torus = BFS over the six link vectors modulo "
    "(width, height) (small sizes) = minimum over lattice images of the mesh "
    "distance (large sizes); the two oracles are cross-checked on all sizes "
    "<= 7 at start-up",
    "tie-breaks: rig's module-level `random` is replaced by a scripted object; "
    "every outcome of the wrap-choice tie-break (4), every spiral count and "
    "all 6 orders of equal dimensions are enumerated",
    "Links.from_vector on raw coordinate differences is only checked for "
    "width, height >= 3 (documented as arbitrary on 2xN systems)",
]


class Scripted(object):
    """Stands in for the `random` module inside rig.geometry / route.utils."""

    def __init__(self, floats=(0.5,), ints=(0,)):
        self.floats = list(floats)
        self.ints = list(ints)
        self.fi = 0
        self.ii = 0
        self.ranges = []

    def random(self):
        v = self.floats[self.fi % len(self.floats)]
        self.fi += 1
        return v

    def randint(self, a, b):
        self.ranges.append((a, b))
        k = self.ints[self.ii % len(self.ints)]
        self.ii += 1
        return a + (k % (b - a + 1))


class scripted(object):
    def __init__(self, module, script):
        self.module = module
        self.script = script

    def __enter__(self):
        self.saved = self.module.random
        self.module.random = self.script
        return self.script

    def __exit__(self, *a):
        self.module.random = self.saved
        return False


PERMS = list(itertools.permutations((0.1, 0.5, 0.9)))
ZOFF = [(0, 0), (1, -2), (-3, 2)]


def _xyz(x, y, k):
    return (x + k, y + k, k)


def _torus_paths(geometry, src, dst, w, h, choices=range(4), spirals=None):
    """All outcomes of shortest_torus_path over the scripted tie-breaks."""
    out = set()
    for c in choices:
        floats = [0.9, 0.9, 0.9, 0.9]
        floats[c] = 0.0
        k = 0
        while True:
            s = Scripted(floats, [k if spirals is None else spirals])
            with scripted(geometry, s):
                with sut("shortest_torus_path"):
                    v = geometry.shortest_torus_path(src, dst, w, h)
            out.add(tuple(int(i) for i in v))
            if spirals is not None or not s.ranges:
                break
            a, b = s.ranges[0]
            k += 1
            if k > b - a:
                break
    return out


def _check_vector(v, dist, s2, d2, w, h, what, details):
    x, y, z = v
    require(abs(x) + abs(y) + abs(z) == dist,
            "%s: vector does not have as many hops as the graph distance"
            % what, dict(details, vector=list(v), distance=dist))
    ex = s2[0] + x - z
    ey = s2[1] + y - z
    if w is not None:
        ok = (ex - d2[0]) % w == 0 and (ey - d2[1]) % h == 0
    else:
        ok = (ex, ey) == tuple(d2)
    require(ok, "%s: vector does not lead from the source to the destination"
            % what, dict(details, vector=list(v)))


def _check_ldf(utils, v, s2, d2, w, h, dist, details, perms=PERMS):
    for perm in perms:
        sc = Scripted(perm)
        with scripted(utils, sc):
            with sut("longest_dimension_first"):
                path = utils.longest_dimension_first(v, tuple(s2), w, h)
        require(len(path) == dist, "longest_dimension_first: number of steps "
                "is not the vector's length",
                dict(details, vector=list(v), steps=len(path), expect=dist))
        cur = tuple(s2)
        runs = []
        for direction, (x, y) in path:
            vx, vy = hexgrid.VECTORS[int(direction)]
            nx, ny = cur[0] + vx, cur[1] + vy
            if w is not None:
                nx %= w
            if h is not None:
                ny %= h
            require((nx, ny) == (x, y), "longest_dimension_first: a step is "
                    "not the neighbour in the direction it is labelled with",
                    dict(details, vector=list(v), at=list(cur),
                         link=int(direction), reported=[x, y]))
            require((w is None or 0 <= x < w) and (h is None or 0 <= y < h),
                    "longest_dimension_first: step outside the wrapped "
                    "range", dict(details, step=[x, y]))
            cur = (x, y)
            dim = int(direction) % 3
            if runs and runs[-1][0] == dim:
                runs[-1][1] += 1
            else:
                runs.append([dim, 1])
        at_end = ((cur[0] - d2[0]) % w == 0 if w is not None
                  else cur[0] == d2[0]) and \
                 ((cur[1] - d2[1]) % h == 0 if h is not None
                  else cur[1] == d2[1])
        require(at_end, "longest_dimension_first: walk does not end at the "
                "destination", dict(details, vector=list(v), end=list(cur)))
        lens = [r[1] for r in runs]
        require(len(set(r[0] for r in runs)) == len(runs) and
                lens == sorted(lens, reverse=True),
                "longest_dimension_first: dimensions are not walked longest "
                "first, each in one run",
                dict(details, vector=list(v), runs=runs))
        # the list is the caller's from here on (multi-leg routes are built
        # by extending it): what is done to it must not show in later walks
        if isinstance(path, list):
            path.append((None, ("caller's", "leg")))


# ---------------------------------------------------------------- torus (enum)

def enum_torus(tier, shard, nshards):
    hexgrid.self_check()
    top = 8 if tier == "quick" else 16
    i = 0
    for w in range(1, top + 1):
        for h in range(1, top + 1):
            for sx in range(w):
                for sy in range(h):
                    i += 1
                    if i % nshards == shard:
                        yield {"w": w, "h": h, "sx": sx, "sy": sy}


def check_torus(case):
    from rig import geometry
    from rig.place_and_route.route import utils
    w, h, sx, sy = case["w"], case["h"], case["sx"], case["sy"]
    bfs = hexgrid.torus_bfs(w, h)
    tied = False
    for dx in range(w):
        for dy in range(h):
            dist = bfs[((dx - sx) % w, (dy - sy) % h)]
            vectors = set()
            for ks, kd in ZOFF:
                src, dst = _xyz(sx, sy, ks), _xyz(dx, dy, kd)
                det = {"w": w, "h": h, "source": list(src),
                       "destination": list(dst)}
                with sut("shortest_torus_path_length"):
                    n = geometry.shortest_torus_path_length(src, dst, w, h)
                require(n == dist, "shortest_torus_path_length differs from "
                        "the graph distance", dict(det, got=n, distance=dist))
                vs = _torus_paths(geometry, src, dst, w, h)
                for v in vs:
                    _check_vector(v, dist, (sx, sy), (dx, dy), w, h,
                                  "shortest_torus_path", det)
                vectors |= vs
            if len(vectors) > 1 and dist >= 2:
                tied = True
            for v in vectors:
                _check_ldf(utils, v, (sx, sy), (dx, dy), w, h, dist,
                           {"w": w, "h": h, "source": [sx, sy],
                            "destination": [dx, dy]})
    return {"nontrivial": tied or w <= 2 or h <= 2,
            "classes": (["tied"] if tied else []) +
                       (["thin"] if w <= 2 or h <= 2 else [])}


# ------------------------------------------------------------ torus (sampled)

def strat_torus(tier):
    top = 64 if tier == "quick" else 256
    coord = st.integers(-300, 600)
    dim = st.one_of(st.integers(1, 4), st.integers(1, top))
    return st.fixed_dictionaries({
        "w": dim, "h": dim,
        "src": st.tuples(coord, coord, st.integers(-20, 20)),
        "dst": st.tuples(coord, coord, st.integers(-20, 20)),
        "choice": st.integers(0, 3), "spiral": st.integers(0, 300),
        # any (x, y, z) vector can be walked, not only shortest ones
        "vec": st.tuples(st.integers(-12, 12), st.integers(-12, 12),
                         st.integers(-12, 12)),
        "perm": st.integers(0, 5)})


def check_torus_sampled(case):
    from rig import geometry
    from rig.place_and_route.route import utils
    w, h = case["w"], case["h"]
    src, dst = tuple(case["src"]), tuple(case["dst"])
    s2 = (src[0] - src[2], src[1] - src[2])
    d2 = (dst[0] - dst[2], dst[1] - dst[2])
    dist = hexgrid.torus_distance_images(d2[0] - s2[0], d2[1] - s2[1], w, h)
    det = {"w": w, "h": h, "source": list(src), "destination": list(dst)}
    with sut("shortest_torus_path_length"):
        n = geometry.shortest_torus_path_length(src, dst, w, h)
    require(n == dist, "shortest_torus_path_length differs from the graph "
            "distance", dict(det, got=n, distance=dist))
    vs = _torus_paths(geometry, src, dst, w, h, [case["choice"]],
                      case["spiral"])
    for v in vs:
        _check_vector(v, dist, s2, d2, w, h, "shortest_torus_path", det)
        start = (s2[0] % w, s2[1] % h)
        _check_ldf(utils, v, start, d2, w, h, dist, det,
                   [PERMS[case["perm"]]])
    if case.get("vec") is not None:
        vx, vy, vz = case["vec"]
        start = (s2[0] % w, s2[1] % h)
        end = (start[0] + vx - vz, start[1] + vy - vz)
        _check_ldf(utils, (vx, vy, vz), start, end, w, h,
                   abs(vx) + abs(vy) + abs(vz), dict(det, walk="any vector"),
                   [PERMS[case["perm"]]])
        if case["perm"] % 2:
            # ... also with only one axis wrapping
            _check_ldf(utils, (vx, vy, vz), (start[0], s2[1]),
                       (end[0], s2[1] + vy - vz), w, None,
                       abs(vx) + abs(vy) + abs(vz),
                       dict(det, walk="any vector, width only"),
                       [PERMS[case["perm"]]])
    return {"nontrivial": dist >= 2,
            "classes": ["thin"] if min(w, h) <= 2 else []}


# ------------------------------------------------------------------- the mesh

def enum_mesh(tier, shard, nshards):
    r = 8 if tier == "quick" else 14
    starts = [(0, 0), (3, -2), (-7, 11), (100, 255)]
    i = 0
    for s in starts:
        for dx in range(-r, r + 1):
            i += 1
            if i % nshards == shard:
                yield {"s": list(s), "dx": dx, "r": r}


def check_mesh(case):
    from rig import geometry
    from rig.place_and_route.route import utils
    sx, sy = case["s"]
    dx = case["dx"]
    r = case["r"]
    for dy in range(-r, r + 1):
        dist = hexgrid.hexnorm(dx, dy)
        vectors = set()
        for ks, kd in ZOFF:
            src = _xyz(sx, sy, ks)
            dst = _xyz(sx + dx, sy + dy, kd)
            det = {"source": list(src), "destination": list(dst)}
            with sut("shortest_mesh_path_length"):
                n = geometry.shortest_mesh_path_length(src, dst)
            require(n == dist, "shortest_mesh_path_length differs from the "
                    "graph distance", dict(det, got=n, distance=dist))
            with sut("shortest_mesh_path"):
                v = tuple(geometry.shortest_mesh_path(src, dst))
            _check_vector(v, dist, (sx, sy), (sx + dx, sy + dy), None, None,
                          "shortest_mesh_path", det)
            vectors.add(v)
        for v in vectors:
            _check_ldf(utils, v, (sx, sy), (sx + dx, sy + dy), None, None,
                       dist, {"source": [sx, sy],
                              "destination": [sx + dx, sy + dy]})
            # width and height are independent options: a walk that wraps
            # on one axis only (documented: "If None, no wrapping")
            for W, H in ((5, None), (None, 4), (2, None), (None, 1)):
                s2 = (sx % W if W else sx, sy % H if H else sy)
                d2 = (s2[0] + dx, s2[1] + dy)
                d2 = (d2[0] % W if W else d2[0], d2[1] % H if H else d2[1])
                _check_ldf(utils, v, s2, d2, W, H, dist,
                           {"source": list(s2), "vector": list(v),
                            "width": W, "height": H}, PERMS[:2])
    return {"nontrivial": abs(dx) >= 1}


# ---------------------------------------------------------------- link tables

def enum_links(tier, shard, nshards):
    top = 9 if tier == "quick" else 20
    i = 0
    for w in range(3, top):
        for h in range(3, top):
            i += 1
            if i % nshards == shard:
                yield {"w": w, "h": h}


def check_links(case):
    from rig.links import Links
    w, h = case["w"], case["h"]
    links = list(Links)
    require(sorted(int(l) for l in links) == [0, 1, 2, 3, 4, 5],
            "Links does not enumerate six directions", {})
    if (w + h) % 2 == 0:
        # a program that has built routing tables has asked the Routes
        # enumeration (whose first six members equal the links) for
        # opposites before it asks Links
        from rig.routing_table import Routes
        with sut("Routes.opposite"):
            for d in range(6):
                r = Routes(d).opposite
                require(isinstance(r, Routes) and int(r) == (d + 3) % 6,
                        "Routes.opposite is not the opposite link's route",
                        {"route": d, "got": repr(r)})
    for l in links:
        with sut("Links"):
            o = l.opposite
            require(isinstance(o, Links), "Links.opposite is not a member "
                    "of Links", {"link": int(l), "got": repr(o)})
            v = tuple(l.to_vector())
            ov = tuple(o.to_vector())
            back = Links.from_vector(v)
        require(v == hexgrid.VECTORS[int(l)],
                "Links.to_vector is not the direction's unit vector",
                {"link": int(l), "vector": list(v)})
        require(o.opposite == l and o != l, "Links.opposite is not an "
                "involution", {"link": int(l)})
        require(ov == (-v[0], -v[1]), "opposite link does not have the "
                "negated vector", {"link": int(l)})
        require(back == l, "from_vector(to_vector(l)) != l",
                {"link": int(l), "got": int(back)})
    for x in range(w):
        for y in range(h):
            for l in links:
                vx, vy = hexgrid.VECTORS[int(l)]
                nx, ny = (x + vx) % w, (y + vy) % h
                with sut("Links.from_vector"):
                    got = Links.from_vector((nx - x, ny - y))
                require(got == l, "from_vector of the coordinate difference "
                        "of two adjacent chips is not the link joining them",
                        {"w": w, "h": h, "from": [x, y], "to": [nx, ny],
                         "expected": int(l), "got": int(got)})
    return {"nontrivial": True}


# ------------------------------------------------------------------- hexagons

def enum_hexagons(tier, shard, nshards):
    top = 12 if tier == "quick" else 30
    starts = [(0, 0), (5, -3), (-100, 7)]
    i = 0
    for r in range(0, top + 1):
        for s in starts:
            i += 1
            if i % nshards == shard:
                yield {"r": r, "start": list(s)}
    # very large radii: only the first chips are taken from the generator
    for r in (600, 1000, 2500, 100000):
        i += 1
        if i % nshards == shard:
            yield {"r": r, "start": [3, 4], "prefix": 64}


def check_hexagons(case):
    from rig import geometry
    r = case["r"]
    sx, sy = case["start"]
    if case.get("prefix"):
        k = case["prefix"]
        with sut("concentric_hexagons"):
            got = [tuple(c) for _, c in zip(
                range(k), geometry.concentric_hexagons(r, (sx, sy)))]
        ds = [hexgrid.hexnorm(x - sx, y - sy) for (x, y) in got]
        want = [0] + [d for d in range(1, 12) for _ in range(6 * d)]
        require(len(set(got)) == k and ds == want[:k], "the first chips of "
                "a large radius are not the nearest rings in order",
                {"radius": r, "distances": ds[:20]})
        return {"nontrivial": True, "classes": ["huge-radius"]}
    with sut("concentric_hexagons"):
        # a caller that searches outwards stops at its first hit: a
        # generator of the same radius is abandoned after a few chips
        search = geometry.concentric_hexagons(r, (sx + 1, sy - 2))
        for _ in zip(range(1 + (r + sx) % 5), search):
            pass
        got = [tuple(c) for c in geometry.concentric_hexagons(r, (sx, sy))]
    expect = set((sx + x, sy + y) for (x, y), d in hexgrid.mesh_bfs(r).items())
    require(len(got) == len(set(got)), "concentric_hexagons yields a chip "
            "twice", {"radius": r})
    require(set(got) == expect, "concentric_hexagons does not yield exactly "
            "the chips within the radius",
            {"radius": r, "missing": sorted(expect - set(got))[:10],
             "extra": sorted(set(got) - expect)[:10]})
    ds = [hexgrid.hexnorm(x - sx, y - sy) for (x, y) in got]
    require(ds == sorted(ds), "concentric_hexagons is not nearest ring first",
            {"radius": r})
    # two generators of different radii alive at the same time (a search
    # around every chip of a ring, zip of two rings ...), advanced in turn
    r2 = r + 1 + (sx % 3) if r < 4 else r // 2
    with sut("concentric_hexagons, two generators in turn"):
        ga = geometry.concentric_hexagons(r, (sx, sy))
        gb = geometry.concentric_hexagons(r2, (sx - 1, sy + 2))
        got_a, got_b = [], []
        done_a = done_b = False
        while not (done_a and done_b):
            if not done_a:
                try:
                    got_a.append(tuple(next(ga)))
                except StopIteration:
                    done_a = True
            if not done_b:
                try:
                    got_b.append(tuple(next(gb)))
                except StopIteration:
                    done_b = True
    expect_b = [(sx - 1 + x, sy + 2 + y) for (x, y) in hexgrid.mesh_bfs(r2)]
    require(got_a == got and sorted(got_b) == sorted(expect_b) and
            len(got_b) == len(set(got_b)),
            "concentric_hexagons: a generator advanced in turn with another "
            "one of a different radius does not yield what it yields alone",
            {"radius": r, "other_radius": r2, "alone": len(got),
             "in_turn": len(got_a), "other": len(got_b),
             "other_expected": len(expect_b)})
    if r == 0:
        with sut("concentric_hexagons default start"):
            d = [tuple(c) for c in geometry.concentric_hexagons(2)]
        require(set(d) == set(hexgrid.mesh_bfs(2)), "default start is not "
                "(0, 0)", {})
    return {"nontrivial": r >= 1}


CLAUSES = [
    Clause("torus-enum", check_torus, enumerate=enum_torus, exhaustive=True,
           rule="one case = (w, h, source) for every w, h <= 8 (quick) / 16 "
                "(thorough); inside it every destination x 3 three-axis "
                "representations x all tie-break outcomes; non-trivial = some "
                "pair at distance >= 2 has >= 2 distinct shortest vectors, or "
                "w or h <= 2",
           shards={"quick": 16, "thorough": 16}),
    Clause("torus-sampled", check_torus_sampled, strategy=strat_torus,
           rule="random w, h <= 64/256, arbitrary integer xyz coordinates, "
                "drawn tie-break outcomes; non-trivial = distance >= 2",
           examples={"quick": 5000, "thorough": 40000},
           shards={"quick": 4, "thorough": 16}),
    Clause("mesh", check_mesh, enumerate=enum_mesh, exhaustive=True,
           rule="all vectors in a (2r+1)^2 window from 4 start chips x 3 "
                "three-axis representations; one case = one column",
           shards={"quick": 4, "thorough": 8}),
    Clause("links", check_links, enumerate=enum_links, exhaustive=True,
           rule="all chips x 6 links of every w, h in 3..8/19",
           shards={"quick": 4, "thorough": 8}),
    Clause("hexagons", check_hexagons, enumerate=enum_hexagons,
           exhaustive=True,
           rule="radii 0..12/30 x 3 start chips; non-trivial = radius >= 1",
           shards={"quick": 2, "thorough": 4}),
]
