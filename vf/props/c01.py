"""C01 Multicast packets reach exactly the cores of their net's sinks."""
import math
import random
import warnings

from hypothesis import strategies as st

from vf.core import Clause, HarnessError, Violation, require, sut
from vf.gen import pr
from vf.gen import problems as gp
from vf.gen import tables as gt
from vf.oracle import mcrouter

PROPERTY_ID = "C01"
LEVEL = "exploration"
IMPORTS = ["rig.place_and_route", "rig.place_and_route.wrapper",
           "rig.routing_table", "rig.machine_control.machine_controller"]
ASSUMPTIONS = [
    "packet semantics: first matching entry decides; with no match a packet "
    "that arrived over a link continues in the same direction (default "
    "routing) and a locally injected packet is dropped; a hop is legal iff "
    "the link is working at the sender and the receiving chip is working",
    "nets have pairwise orthogonal (key, mask) pairs built as a prefix-free "
    "code over <= 8 active bits; packets are injected with the net's key and "
    "with its X bits filled with 0s, 1s and an alternating pattern",
    "route-endpoint constraints to a link name a link that is dead or absent "
    "in the machine at the (location-constrained) chip of the vertex: the "
    "packet leaves the machine there",
    "constraint sets are consistent as in C02; RNGs are seeded per case",
    "an entry with an empty route (a sink without cores) absorbs the packet",
]

PLACERS = ["sa-c", "hilbert", "rcm", "breadth-first", "sequential", "rand",
           "sa-python", "default"]
METHODS = [None, [], ["rdr"], ["oc"], ["rdr", "oc"], ["oc", "rdr"]]
STATES = ["idle"] * 8 + ["run", "dead", "sync0", "exit"]


@st.composite
def net_keys(draw, n_nets):
    """Prefix-free patterns over a drawn key space, one per net."""
    need_bits = max(1, int(math.ceil(math.log(max(n_nets, 1), 2))))
    ks = draw(gt.keyspace(8))
    while len(ks["bits"]) < need_bits:
        extra = [b for b in range(32) if b not in ks["bits"]]
        b = extra[0]
        ks["bits"] = sorted(ks["bits"] + [b])
        ks["const_mask"] &= ~(1 << b)
        ks["const_key"] &= ~(1 << b)
    n = len(ks["bits"])
    leaves = ["X" * n]
    while len(leaves) < n_nets or (len(leaves) < 2 * n_nets and
                                    draw(st.booleans())):
        splittable = [i for i, p in enumerate(leaves) if "X" in p]
        if not splittable:
            break
        i = splittable[draw(st.integers(0, len(splittable) - 1))]
        p = leaves.pop(i)
        xs = [j for j, c in enumerate(p) if c == "X"]
        j = xs[draw(st.integers(0, len(xs) - 1))]
        leaves += [p[:j] + "0" + p[j + 1:], p[:j] + "1" + p[j + 1:]]
    pats = draw(st.permutations(leaves))[:n_nets]
    return dict(ks, pats=pats)


@st.composite
def strat_pipeline(draw, tier, mode, heavy_faults=False):
    big = tier == "thorough"
    # few cores per chip, so that graphs spread over several chips
    ncores = draw(st.one_of(st.integers(2, 6), st.integers(2, 6),
                            st.integers(1, 18)))
    if heavy_faults:
        ncores = draw(st.integers(1, 2))      # spread the graph widely
    if mode == "system-info":
        resources = {"Cores": min(18, ncores + 1),
                     "SDRAM": draw(st.integers(20, 100)),
                     "SRAM": draw(st.integers(0, 50))}
    else:
        resources = draw(st.one_of(
            st.just({"Cores": ncores}),
            st.fixed_dictionaries({"Cores": st.just(ncores),
                                   "SDRAM": st.integers(20, 100)})))
    placer = draw(st.sampled_from(PLACERS))
    small = placer in ("sa-python", "default")
    max_w = (8 if big else 5) if small else (16 if big else 8)
    max_v = (12 if big else 8) if small else (30 if big else 12)
    if heavy_faults:
        # 10-30% of all links dead in one direction: nets need several
        # repairs that interact (cf. C03 'dead-links')
        m = draw(pr.machine(resources=resources, exceptions=False,
                            shape=st.tuples(st.integers(4, 8),
                                            st.integers(3, 7))))
        m["dead_chips"] = []
        k = draw(st.integers((6 * m["w"] * m["h"]) // 10,
                             (18 * m["w"] * m["h"]) // 10))
        m["dead_links"] = sorted(set(draw(st.lists(
            st.tuples(st.integers(0, m["w"] - 1), st.integers(0, m["h"] - 1),
                      st.integers(0, 5)), min_size=k, max_size=k))))
        # the random placer spreads the graph over the whole machine
        placer = draw(st.sampled_from(["rand", "rand", "rand", "hilbert"]))
    else:
        m = draw(pr.machine(max_w, max_w, resources=resources))
    if mode == "system-info":
        # resource exceptions may only lower a quantity (build_machine takes
        # the maximum as the default)
        for e in m["exceptions"]:
            for r in e[2]:
                e[2][r] = min(e[2][r], m["resources"][r])
    chips = pr.live_chips(m)
    total = sum(pr.chip_capacity(m, c)["Cores"] for c in chips)
    top = max(1, min(max_v, total // 2))
    if heavy_faults:
        top = max(1, min(24, total // 2))
    n = draw(st.integers(min(3 if not heavy_faults else 8, top), top))
    names = ["v%d" % i for i in range(n)]
    vertices = []
    for v in names:
        needs = {}
        k = draw(st.sampled_from([0, 1, 1, 1, 1, 2] if not heavy_faults
                                 else [1, 1, 1, 0]))
        if k or draw(st.booleans()):
            needs["Cores"] = k
        if "SDRAM" in resources and draw(st.booleans()):
            needs["SDRAM"] = draw(st.integers(0, 5))
        vertices.append({"name": v, "needs": needs})
    constraints = []
    same = []
    for _ in range(draw(st.integers(0, 2))):
        same.append(draw(st.lists(st.sampled_from(names), min_size=1,
                                  max_size=3)))
    for g in same:
        constraints.append({"type": "same", "vs": g})
    groups = gp.same_chip_groups(names, same)
    group_of = {}
    for g in groups:
        for v in g:
            group_of[v] = g
    pinned = set()
    working = pr.working_links(m)
    for g in draw(st.lists(st.sampled_from(groups), max_size=3,
                           unique_by=lambda g: g[0])):
        v = draw(st.sampled_from(sorted(g)))
        chip = draw(st.sampled_from(chips))
        constraints.append({"type": "loc", "v": v, "chip": list(chip)})
        pinned.update(g)
        # device vertex: zero cores, alone in its group, leaves on a link that
        # is dead / absent at its chip
        dead_here = [l for l in range(6)
                     if (chip[0], chip[1], l) not in working]
        needs = [x for x in vertices if x["name"] == v][0]["needs"]
        if len(g) == 1 and dead_here and needs.get("Cores", 0) == 0 and \
                draw(st.booleans()):
            constraints.append({"type": "endpoint", "v": v,
                                "route": draw(st.sampled_from(dead_here))})
    for v in names:
        if v not in pinned and draw(st.integers(0, 11)) == 0 and not any(
                c["type"] == "endpoint" and c["v"] == v for c in constraints):
            constraints.append({"type": "endpoint", "v": v,
                                "route": 6 + draw(st.integers(0, 17))})
    if mode != "system-info" and not heavy_faults:
        reserve, _ = draw(gp.reservations(m, chips, max_each=1))
        for r in reserve:
            if r["res"] in ("Cores", "SDRAM"):
                constraints.append(dict(r, type="reserve"))
    constraints = draw(st.permutations(constraints))
    if heavy_faults:
        nets = draw(gp.nets_strategy(names, max_nets=8, max_fan=10,
                                     min_nets=3))
    else:
        nets = draw(gp.nets_strategy(names, max_nets=8 if big else 6,
                                     max_fan=8 if big else 5,
                                     min_nets=draw(st.sampled_from([0, 1,
                                                                    2]))))
    keys = draw(net_keys(len(nets)))
    case = {"mode": mode, "machine": m, "vertices": vertices, "nets": nets,
            "constraints": constraints, "keys": keys,
            "vkind": draw(st.sampled_from(pr.VERTEX_KINDS)),
            # nets and constraints as instances of the program's own
            # subclasses; debug logging switched on
            "subcls": draw(st.integers(0, 4)) == 0,
            "debug_log": draw(st.integers(0, 5)) == 0,
            "seed": draw(st.integers(0, 10 ** 6)), "placer": placer,
            "effort": draw(st.sampled_from([0.0, 0.1, 0.5])),
            "radius": draw(st.sampled_from([None, 0, 1, 2, 5, 20])),
            "methods": draw(st.sampled_from(METHODS))}
    if mode == "by-hand" and heavy_faults:
        case["target"] = draw(st.sampled_from([None, None, 1024, 6]))
    elif mode == "by-hand":
        case["target"] = draw(st.one_of(
            st.none(), st.integers(0, 5), st.just(1024), st.integers(0, 12),
            st.lists(st.one_of(st.none(), st.integers(0, 8)), min_size=4,
                     max_size=4)))
    elif mode == "system-info":
        info = {}
        for c in chips:
            cap = pr.chip_capacity(m, c)
            states = [draw(st.sampled_from(STATES))
                      for _ in range(cap["Cores"])]
            if states:
                states[0] = "run"
            info["%d,%d" % c] = {
                "core_states": states,
                "rtr": draw(st.sampled_from([1023, 1023, 0, 1, 2, 3, 5, 8,
                                             40]))}
        shared = draw(st.sampled_from([None, None, 1, 2]))
        if shared is not None:
            for d in info.values():
                if len(d["core_states"]) > shared:
                    d["core_states"][shared] = "run"
        case["chip_info"] = info
    else:
        case["reserve_monitor"] = draw(st.booleans())
        case["align_sdram"] = draw(st.booleans())
    # cores and memories named by identifiers of the caller's own
    case["custom_resources"] = draw(st.integers(0, 3)) == 0
    # dead links that become known only after a first mapping on the same
    # Machine object
    case["late_dead_links"] = None
    if mode == "by-hand" and m["dead_links"] and draw(st.integers(0, 2)) == 0:
        case["late_dead_links"] = draw(st.lists(st.sampled_from(
            [list(l) for l in m["dead_links"]]), unique_by=tuple,
            min_size=1, max_size=6))
    return case


def _placer(case):
    """-> (place function, kwargs)"""
    name = case["placer"]
    rng = random.Random(case["seed"])
    if name == "default":
        from rig.place_and_route import place
        return place, {"random": rng, "effort": case["effort"]}
    if name in ("sa-c", "sa-python"):
        from rig.place_and_route.place.sa import place
        if name == "sa-c":
            from rig.place_and_route.place.sa.c_kernel import CKernel as K
            return place, {"random": rng, "effort": case["effort"],
                           "kernel": K}
        from rig.place_and_route.place.sa.python_kernel import \
            PythonKernel as K
        return place, {"random": rng, "effort": case["effort"], "kernel": K,
                       "kernel_kwargs": {"no_warn": True}}
    if name == "rand":
        from rig.place_and_route.place.rand import place
        return place, {"random": rng}
    import importlib
    mod = importlib.import_module(
        "rig.place_and_route.place." + name.replace("-", "_"))
    return mod.place, {}


def _methods(names):
    from rig.routing_table import ordered_covering as oc
    from rig.routing_table import remove_default_routes as rdr
    table = {"rdr": rdr.minimise, "oc": oc.minimise}
    return tuple(table[n] for n in names)


def build_system_info(case):
    from rig.links import Links
    from rig.machine_control.consts import AppState
    from rig.machine_control.machine_controller import SystemInfo, ChipInfo
    m = case["machine"]
    working = pr.working_links(m)
    si = SystemInfo(m["w"], m["h"])
    for c in pr.live_chips(m):
        d = case["chip_info"]["%d,%d" % c]
        cap = pr.chip_capacity(m, c)
        si[c] = ChipInfo(
            num_cores=cap["Cores"],
            core_states=[getattr(AppState, s) for s in d["core_states"]],
            working_links=set(Links(l) for l in range(6)
                              if (c[0], c[1], l) in working),
            largest_free_sdram_block=cap["SDRAM"],
            largest_free_sram_block=cap["SRAM"],
            largest_free_rtr_mc_block=d["rtr"])
    return si


CUSTOM_RESOURCES = {"Cores": "my cores", "SDRAM": ("my", "sdram"),
                    "SRAM": "my_sram"}


def run_pipeline(case):
    """-> dict(placements, allocations, tables, keys) with names / ints, or
    raises a documented exception."""
    if case.get("custom_resources"):
        # the caller's own identifiers for cores and memories, named through
        # the documented core_resource= / sdram_resource= / sram_resource=
        pr._alias = dict(CUSTOM_RESOURCES)
    try:
        return _run_pipeline(case)
    finally:
        pr._alias = {}


def _run_pipeline(case):
    from rig.place_and_route import allocate, route
    Cores = pr.resource("Cores")
    res_kw = {}
    if case.get("custom_resources"):
        res_kw = {"core_resource": Cores,
                  "sdram_resource": pr.resource("SDRAM")}
    from rig.routing_table import routing_tree_to_tables, minimise_tables
    vr, nets, machine, cons, vobj = gp.build_problem(case)
    back = dict((id(o) if case["vkind"] in ("obj", "idobj") else o, n)
                for n, o in vobj.items())
    keys = {}
    for net, pat in zip(nets, case["keys"]["pats"]):
        keys[net] = gt.pattern_key_mask(case["keys"], pat)
    place, place_kwargs = _placer(case)
    route_kwargs = {} if case["radius"] is None else {"radius":
                                                      case["radius"]}
    random.seed(case["seed"])
    mode = case["mode"]
    late = case.get("late_dead_links") if mode == "by-hand" else None
    if late:
        # the application was mapped once before some of the dead links were
        # known; they are then recorded on the same Machine object and the
        # application is mapped again (judged)
        from rig.links import Links
        from rig.place_and_route.exceptions import (
            InsufficientResourceError, InvalidConstraintError,
            MachineHasDisconnectedSubregion)
        for x, y, l in late:
            machine.dead_links.discard((x, y, Links(l)))
        try:
            random.seed(case["seed"] + 7)
            pl0 = place(vr, nets, machine, cons, **place_kwargs)
            al0 = allocate(vr, nets, machine, cons, pl0)
            route(vr, nets, machine, cons, pl0, al0, **(
                dict(route_kwargs, core_resource=Cores) if res_kw
                else route_kwargs))
        except (InsufficientResourceError, InvalidConstraintError,
                MachineHasDisconnectedSubregion):
            pass
        for x, y, l in late:
            machine.dead_links.add((x, y, Links(l)))
        random.seed(case["seed"])
    if mode == "by-hand":
        placements = place(vr, nets, machine, cons, **place_kwargs)
        allocations = allocate(vr, nets, machine, cons, placements)
        if res_kw:
            routes = route(vr, nets, machine, cons, placements, allocations,
                           core_resource=Cores, **route_kwargs)
        else:
            routes = route(vr, nets, machine, cons, placements, allocations,
                           **route_kwargs)
        tables = routing_tree_to_tables(routes, keys)
        t = case["target"]
        if isinstance(t, list):
            chips = sorted(tables)
            t = dict((c, t[i % len(t)]) for i, c in enumerate(chips))
        if case["methods"] is None:
            tables = minimise_tables(tables, t)
        else:
            tables = minimise_tables(tables, t, _methods(case["methods"]))
    elif mode == "system-info":
        from rig.place_and_route import place_and_route_wrapper
        si = build_system_info(case)
        apps = dict((v, "app%d.aplx" % (i % 2))
                    for i, v in enumerate(vr))
        kw = dict(res_kw)
        if res_kw:
            kw["sram_resource"] = pr.resource("SRAM")
        if case["methods"] is not None:
            kw["minimise_tables_methods"] = _methods(case["methods"])
        placements, allocations, appmap, tables = place_and_route_wrapper(
            vr, apps, nets, keys, si, cons, place=place,
            place_kwargs=place_kwargs, route_kwargs=route_kwargs, **kw)
        _check_appmap(case, appmap, apps, placements, allocations, Cores)
    else:
        from rig.place_and_route import wrapper
        apps = dict((v, "app.aplx") for v in vr)
        with warnings.catch_warnings():
            warnings.simplefilter("ignore")
            placements, allocations, appmap, tables = wrapper(
                vr, apps, nets, keys, machine, cons,
                reserve_monitor=case["reserve_monitor"],
                align_sdram=case["align_sdram"], place=place,
                place_kwargs=place_kwargs, route_kwargs=route_kwargs,
                **res_kw)
        _check_appmap(case, appmap, apps, placements, allocations, Cores)

    def nm(o):
        return back.get(id(o) if case["vkind"] in ("obj", "idobj") else o)
    return {
        "placements": dict((nm(v), tuple(c)) for v, c in placements.items()),
        "cores": dict((nm(v), a.get(Cores)) for v, a in allocations.items()),
        "tables": dict((tuple(c), gt.from_rig(t)) for c, t in tables.items()),
        "keys": [keys[n] for n in nets],
    }


def _check_appmap(case, appmap, apps, placements, allocations, Cores):
    expect = {}
    for v, app in apps.items():
        s = allocations[v].get(Cores, slice(0, 0))
        expect.setdefault(app, {}).setdefault(tuple(placements[v]),
                                              set()).update(
            range(s.start, s.stop))
    got = dict((a, dict((tuple(c), set(p)) for c, p in d.items()))
               for a, d in appmap.items())
    require(got == expect, "the application map does not list exactly the "
            "allocated cores of each application's vertices", {})


def check_pipeline(case):
    from rig.place_and_route.exceptions import (
        InsufficientResourceError, InvalidConstraintError,
        MachineHasDisconnectedSubregion)
    from rig.routing_table import MinimisationFailedError
    documented = (InsufficientResourceError, InvalidConstraintError,
                  MachineHasDisconnectedSubregion, MinimisationFailedError)
    cls = [case["mode"], "placer=" + case["placer"]] + (
        ["custom-resource-identifiers"] if case.get("custom_resources")
        else []) + (["mapped-before-late-faults"]
                    if case.get("late_dead_links") else []) + [
           "methods=" + ("default" if case["methods"] is None else
                         "+".join(case["methods"]) or "none"),
           "mesh" if case["machine"]["mesh"] else "torus"]
    try:
        with sut("place-and-route pipeline", documented):
            with gp.debug_logging(case.get("debug_log")):
                out = run_pipeline(case)
    except documented as e:
        return {"documented": True, "classes": cls + [type(e).__name__]}
    m = case["machine"]
    # busy cores are never allocated
    if case["mode"] == "system-info":
        for v, s in out["cores"].items():
            if s is None:
                continue
            chip = out["placements"][v]
            st_ = case["chip_info"]["%d,%d" % chip]["core_states"]
            for c in range(s.start, s.stop):
                require(c < len(st_) and st_[c] == "idle", "a vertex was "
                        "allocated a core that does not exist or is not idle",
                        {"vertex": v, "chip": list(chip), "core": c})
    endpoint = dict((c["v"], c["route"]) for c in case["constraints"]
                    if c["type"] == "endpoint")
    multi_chip = False
    shrunk = False
    device_exits = set()
    for v, r in endpoint.items():
        if r < 6:
            device_exits.add((out["placements"][v], r))
    for i, net in enumerate(case["nets"]):
        src = out["placements"][net["source"]]
        exp_cores = set()
        exp_dev = set()
        for s in net["sinks"]:
            chip = out["placements"][s]
            if chip != src:
                multi_chip = True
            if s in endpoint:
                r = endpoint[s]
                if r >= 6:
                    exp_cores.add((chip, r - 6))
                else:
                    exp_dev.add((chip, r))
            else:
                sl = out["cores"].get(s)
                if sl is not None:
                    for c in range(sl.start, sl.stop):
                        exp_cores.add((chip, c))
        key, mask = out["keys"][i]
        free = ~mask & 0xffffffff
        for fill in sorted(set([0, free, free & 0x55555555,
                                free & 0xaaaaaaaa])):
            k = key | fill
            det = {"net": i, "key": hex(k), "source_chip": list(src)}
            try:
                cores, devs = mcrouter.simulate(m, out["tables"], src, k,
                                                device_exits)
            except mcrouter.RoutingFault as f:
                raise Violation("net %d: %s" % (i, f.why),
                                dict(det, fault=f.details,
                                     **_dump(case, out)))
            got = set(cores)
            dup = sorted((list(c), p) for (c, p), n in cores.items()
                         if n != 1)
            require(not dup, "net %d: a core receives the packet more than "
                    "once" % i, dict(det, duplicated=dup, **_dump(case, out)))
            require(got == exp_cores and set(devs) == exp_dev,
                    "net %d: the packet is not delivered to exactly the "
                    "cores allocated to the net's sinks" % i,
                    dict(det,
                         missing=sorted((list(c), p)
                                        for c, p in exp_cores - got),
                         extra=sorted((list(c), p)
                                      for c, p in got - exp_cores),
                         device_missing=sorted(
                             (list(c), l) for c, l in exp_dev - set(devs)),
                         device_extra=sorted(
                             (list(c), l) for c, l in set(devs) - exp_dev),
                         **_dump(case, out)))
    n_entries = sum(len(t) for t in out["tables"].values())
    return {"nontrivial": multi_chip and n_entries > 0,
            "classes": cls + ["completed"] +
                       (["multi-chip"] if multi_chip else [])}


def _dump(case, out):
    return {"placements": dict((v, list(c))
                               for v, c in sorted(out["placements"].items())),
            "tables": dict(("%d,%d" % c, ["%08x/%08x -> %s from %s" % (
                k, mk, sorted(r), sorted(s, key=repr))
                for k, mk, r, s in t]) for c, t in out["tables"].items())}


def _strat(mode):
    return lambda tier: strat_pipeline(tier, mode)


RULE = ("graphs x machines (dead chips, one-way dead links, resource "
        "exceptions) x consistent constraints x orthogonal keys x placer x "
        "radius x minimisation methods x target; every net's key (X bits "
        "filled four ways) is injected into the packet simulator; "
        "non-trivial = the pipeline completed, some sink is on another chip "
        "than its net's source and the tables are not empty")

CLAUSES = [
    Clause("by-hand-heavy-faults", check_pipeline,
           strategy=lambda tier: strat_pipeline(tier, "by-hand", True),
           rule=RULE + "; machines 4-8 x 3-7 with 10-30% of the links dead in "
                "one direction, so that routes need several interacting "
                "repairs",
           examples={"quick": 1500, "thorough": 15000},
           shards={"quick": 8, "thorough": 16}),
    Clause("by-hand", check_pipeline, strategy=_strat("by-hand"), rule=RULE,
           examples={"quick": 1200, "thorough": 12000},
           shards={"quick": 8, "thorough": 16}),
    Clause("system-info-wrapper", check_pipeline,
           strategy=_strat("system-info"),
           rule=RULE + "; busy cores and small free router blocks come from "
                "a generated SystemInfo",
           examples={"quick": 1000, "thorough": 8000},
           shards={"quick": 8, "thorough": 16}),
    Clause("deprecated-wrapper", check_pipeline, strategy=_strat("wrapper"),
           rule=RULE, examples={"quick": 600, "thorough": 6000},
           shards={"quick": 4, "thorough": 16}),
]
