"""C07 Remote memory reads and writes are byte-exact."""
import base64
import os
import struct

from hypothesis import strategies as st

from vf.core import HarnessError, Clause, Violation, require, sut
from vf.oracle import svstruct
from vf.props.c06 import Plan, plan_entry
from vf.sim import scamp
from vf.sim.world import World

PROPERTY_ID = "C07"
LEVEL = "fault_enumeration"
IMPORTS = ["rig.machine_control", "rig.machine_control.scp_connection"]
ASSUMPTIONS = [
    "the simulated machine (vf/sim/scamp.py) holds a sparse byte memory per "
    "chip and asserts per command: data length <= advertised buffer, word / "
    "half-word access type only with so-aligned address and length, write "
    "arg2 == len(data)",
    "struct and per-core field addresses are recomputed from the struct file "
    "by an independent reader (vf/oracle/svstruct.py)",
    "with faults: replies may be lost, delayed, duplicated or replaced by a "
    "retryable code, in a third of the cases also by a fatal code; one case "
    "in six starts with a blackout of 5 or 10 transmissions; if a call ends "
    "in an SCP error the only requirement left for it is that no byte outside "
    "the target range changed, and the history carries on with the same "
    "controller",
    "link reads/writes are given word-aligned addresses and lengths "
    "(documented ValueError otherwise)",
]

BASE = 0x60500000


def pattern(addr, n):
    return bytes(((a * 7 + (a >> 8) * 13 + 5) & 0xff)
                 for a in range(addr, addr + n))


def b64(b):
    return base64.b64encode(bytes(b)).decode()


def data_strategy(maxlen):
    return st.one_of(
        st.binary(max_size=12),
        # long runs of one byte (a cleared or pre-set buffer)
        st.tuples(st.sampled_from([0, 0xab, 0xff, 1]),
                  st.integers(0, maxlen)).map(lambda t: bytes([t[0]]) * t[1]),
        st.integers(0, maxlen).map(lambda n: bytes((i * 11 + 1) & 0xff
                                                  for i in range(n))),
        st.binary(max_size=maxlen)).map(b64)


@st.composite
def strat_ops(draw, tier, faults):
    big = tier == "thorough"
    buf = draw(st.sampled_from([16, 24, 32, 64, 100, 128, 256, 256, 512]))
    if draw(st.integers(0, 5)) == 0:
        buf = draw(st.integers(16, 512))
    maxlen = 5 * buf + 7
    sv = svstruct.load()
    sv_fields = sorted(sv["sv"].fields)
    vcpu_fields = sorted(sv["vcpu"].fields)
    chips = [[0, 0], [1, 0], [0, 1], [1, 1], [255, 255]]
    ops = []
    for _ in range(draw(st.integers(1, 10 if big else 6))):
        kind = draw(st.sampled_from(
            ["write", "read", "write", "read", "conn_write", "conn_read",
             "fill", "struct_read", "struct_write", "vcpu_read", "vcpu_write",
             "link_read", "link_write"]))
        if draw(st.integers(0, 11)) == 0:
            # a documented failure (unaligned link access) in the middle of
            # the history; later operations must be unaffected
            ops.append({"op": "bad_link", "chip": [0, 0], "p": 0})
        op = {"op": kind, "chip": draw(st.sampled_from(chips)),
              "p": draw(st.sampled_from([0, 0, 1, 5, 17])),
              "style": draw(st.sampled_from(["explicit", "explicit",
                                             "context"]))}
        addr = BASE + draw(st.one_of(st.integers(0, 9),
                                     st.integers(0, scamp.PAGE + 40)))
        if kind in ("write", "conn_write"):
            op.update(addr=addr, data=draw(data_strategy(maxlen)))
        elif kind in ("read", "conn_read"):
            op.update(addr=addr, n=draw(st.one_of(st.integers(0, 12),
                                                  st.integers(0, maxlen))))
        if kind in ("write", "conn_write", "read", "conn_read") and \
                draw(st.integers(0, 9)) == 0:
            # the ends of the 32-bit address space: a block that ends with
            # the last byte (or a little below it), a block at address 0
            ln = len(base64.b64decode(op["data"])) if "data" in op \
                else op["n"]
            top = (1 << 32) - draw(st.sampled_from([0, 0, 0, 1, 4, 3]))
            # (an empty block still starts at an address of 32 bits)
            high = min(0xffffffff, max(0, top - ln))
            op["addr"] = draw(st.sampled_from([high, high, 0, 1]))
        if kind in ("write", "conn_write", "read", "conn_read"):
            pass
        elif kind == "fill":
            op.update(addr=addr, n=draw(st.one_of(
                st.integers(0, 64), st.integers(0, 16).map(lambda k: 4 * k),
                st.integers(0, maxlen))),
                value=draw(st.integers(0, 0xffffffff)),
                aligned=draw(st.booleans()))
            if not faults and draw(st.integers(0, 29)) == 0:
                # a fill of a megabyte and a bit
                op["n"] = (1 << 20) + 4 * draw(st.integers(0, 2048))
                op["aligned"] = True
            if op["aligned"]:
                op["addr"] -= op["addr"] % 4
                op["n"] -= op["n"] % 4
            else:
                op["value"] &= 0xff
        elif kind in ("struct_read", "struct_write"):
            op.update(field=draw(st.sampled_from(sv_fields)),
                      value=draw(st.integers(0, 0xffffffff)))
        elif kind in ("vcpu_read", "vcpu_write"):
            op.update(field=draw(st.sampled_from(vcpu_fields)),
                      core=draw(st.integers(0, 17)),
                      value=draw(st.integers(0, 0xffffffff)))
        else:
            n = 4 * draw(st.one_of(st.integers(0, 4),
                                   st.integers(0, maxlen // 4)))
            op.update(addr=addr - addr % 4, n=n,
                      link=draw(st.integers(0, 5)),
                      data=b64(bytes((i * 3 + 7) & 0xff for i in range(n))))
            if op["chip"] == [255, 255]:
                op["chip"] = [0, 0]
        if kind.startswith("conn_"):
            op["window"] = draw(st.integers(1, 8))
        ops.append(op)
    case = {"buffer": buf, "window": draw(st.sampled_from([None, 1, 2, 4,
                                                           8])),
            "vcpu_base": draw(st.sampled_from([scamp.VCPU_BASE, 0xe5008200,
                                               0x67700000])),
            "ops": ops, "plan": []}
    # the first thing the program does may be to ask an application core for
    # its software version (that core may advertise another buffer size)
    if draw(st.integers(0, 3)) == 0:
        case["first_sver"] = [draw(st.sampled_from([0, 1])), 0,
                              draw(st.sampled_from([1, 2, 17]))]
        case["app_buffer"] = draw(st.sampled_from([None, 2 * buf,
                                                   max(8, buf // 2)]))
    if faults:
        pe = plan_entry().filter(lambda e: all(r[0] != "fatal"
                                               for r in e["replies"]))
        if draw(st.integers(0, 2)) == 0:
            # replies may also carry a fatal return code: the operation is
            # abandoned in the middle of its window, the program carries on
            pe = plan_entry()
        case["plan"] = draw(st.lists(pe, min_size=1, max_size=40))
        if draw(st.integers(0, 5)) == 0:
            # the machine is unreachable at first: every transmission of the
            # first command (or two) is lost, the program catches the error
            # and carries on with the same controller
            case["plan"] = [{"req_lost": True, "replies": []}] * \
                draw(st.sampled_from([5, 5, 10])) + case["plan"]
    return case


def _machine(case):
    m = scamp.Machine(2, 2, buffer_size=case["buffer"])
    m.vcpu_base = case["vcpu_base"]
    m.populate()
    for i, c in enumerate(sorted(m.chips.values(),
                                 key=lambda c: (c.x, c.y))):
        # the per-core blocks live at a chip-specific address
        c.sv_write("vcpu_base", m.vcpu_base + 0x1080 * i)
        for page in (-1, 0, 1, 2):
            a = BASE + page * scamp.PAGE
            c.mem.write(a, pattern(a, scamp.PAGE))
    return m


def _chip(m, op):
    xy = tuple(op["chip"])
    return m.chips[(0, 0) if xy == (255, 255) else xy]


def _expect_only(m, snaps, chip, lo, hi, what):
    for xy, c in m.chips.items():
        d = c.mem.diff(snaps[xy])
        if c is chip:
            d = [e for e in d if not (lo <= e[0] < hi)]
        require(not d, "%s changed a byte outside the range it was asked to "
                "write" % what,
                {"chip": list(xy), "address": hex(d[0][0]) if d else None,
                 "n_bytes": len(d), "range": [hex(lo), hex(hi)]})


def check_ops(case):
    from rig.machine_control.scp_connection import SCPError
    m = _machine(case)
    structs = m.structs
    plan = Plan(case["plan"], 0.5) if case["plan"] else None
    classes = set()
    nontrivial = False
    with World(m, plan=plan) as w:
        with sut("MachineController()"):
            mc = w.controller()
            if case["window"] is not None:
                mc._window_size = case["window"]
        if case.get("first_sver"):
            m.app_buffer_size = case.get("app_buffer")
            try:
                with sut("get_software_version", (SCPError,)):
                    mc.get_software_version(*case["first_sver"])
            except SCPError:
                pass
            classes.add("sver-first")
        for op in case["ops"]:
            kind = op["op"]
            chip = _chip(m, op)
            x, y = op["chip"]
            if kind == "bad_link":
                try:
                    with sut("read_across_link", (ValueError,)):
                        mc.read_across_link(BASE + 1, 4, 0, 0, 0)
                    raise Violation("an unaligned link read is not rejected",
                                    {})
                except ValueError:
                    continue
            ctx = op.get("style") == "context" and kind in (
                "write", "read", "fill", "struct_read", "struct_write",
                "vcpu_read", "vcpu_write", "link_read", "link_write")
            if ctx:
                # chip (and core) come from an enclosing context block
                core = op["core"] if kind.startswith("vcpu") else op["p"]
                block = mc(x=x, y=y, p=core) if not kind.startswith("link") \
                    else mc(x=x, y=y)
                block.__enter__()
                XY = ()
                XYP = ()
                XYC = ()
            else:
                block = None
                XY = (x, y)
                XYP = (x, y, op["p"])
                XYC = (x, y, op.get("core", 0))
            snaps = dict((xy, c.mem.snapshot()) for xy, c in m.chips.items())
            lo = hi = 0
            what = kind
            try:
                with sut(kind, (SCPError,)):
                    if kind in ("write", "conn_write"):
                        data = base64.b64decode(op["data"])
                        lo, hi = op["addr"], op["addr"] + len(data)
                        if kind == "write":
                            mc.write(op["addr"], data, *XYP)
                        else:
                            mc.connections[None].write(
                                mc.scp_data_length, op["window"], x, y,
                                op["p"], op["addr"], data)
                        got = chip.mem.read(lo, len(data))
                        require(got == data, "write did not leave exactly "
                                "the given bytes at the given addresses",
                                {"address": hex(lo), "length": len(data),
                                 "first_difference": _first_diff(got, data)})
                        nontrivial |= len(data) > case["buffer"] or \
                            bool(lo % 4) or bool(len(data) % 4)
                    elif kind in ("read", "conn_read"):
                        n = op["n"]
                        want = chip.mem.read(op["addr"], n)
                        if kind == "read":
                            got = mc.read(op["addr"], n, *XYP)
                        else:
                            got = mc.connections[None].read(
                                mc.scp_data_length, op["window"], x, y,
                                op["p"], op["addr"], n)
                        require(bytes(got) == want, "read did not return "
                                "exactly the bytes stored at the address",
                                {"address": hex(op["addr"]), "length": n,
                                 "got_length": len(got),
                                 "first_difference": _first_diff(got, want)})
                        nontrivial |= n > case["buffer"] or \
                            bool(op["addr"] % 4) or bool(n % 4)
                    elif kind == "fill":
                        lo, hi = op["addr"], op["addr"] + op["n"]
                        mc.fill(op["addr"], op["value"], op["n"], *XYP)
                        # documented: word fill iff address and size are
                        # both word aligned, byte fill otherwise
                        if op["addr"] % 4 == 0 and op["n"] % 4 == 0:
                            want = struct.pack("<I", op["value"]) * \
                                (op["n"] // 4)
                        else:
                            want = bytes([op["value"]]) * op["n"]
                        got = chip.mem.read(lo, op["n"])
                        require(got == want, "fill did not leave exactly the "
                                "fill value in the given range",
                                {"address": hex(lo), "size": op["n"],
                                 "first_difference": _first_diff(got, want)})
                        nontrivial |= not op["aligned"]
                    elif kind in ("struct_read", "struct_write"):
                        f = structs["sv"].fields[op["field"]]
                        addr = structs["sv"].base + f.offset
                        if kind == "struct_read":
                            want = f.unpack(chip.mem.read(addr, f.size))
                            got = mc.read_struct_field("sv", op["field"],
                                                       *XYP)
                            require(got == want, "read_struct_field does not "
                                    "return the field's stored value",
                                    {"field": op["field"], "got": repr(got),
                                     "expected": repr(want)})
                        else:
                            top = (1 << (8 * f.elem_size)) - 1
                            vals = [(op["value"] + 37 * i) & top
                                    for i in range(f.count)]
                            lo, hi = addr, addr + f.size
                            mc.write_struct_field(
                                "sv", op["field"],
                                vals[0] if f.count == 1 else vals, *XYP)
                            want = b"".join(f.pack(v) for v in vals)
                            got = chip.mem.read(addr, f.size)
                            require(got == want, "write_struct_field did not "
                                    "store the value at the field's address",
                                    {"field": op["field"],
                                     "address": hex(addr)})
                        nontrivial |= f.size != 4
                    elif kind in ("vcpu_read", "vcpu_write"):
                        f = structs["vcpu"].fields[op["field"]]
                        # the per-core blocks start where the chip's own
                        # sv->vcpu_base says (an earlier struct write may
                        # have changed it)
                        vb = structs["sv"].fields["vcpu_base"]
                        vbase = vb.unpack(chip.mem.read(
                            structs["sv"].base + vb.offset, 4))
                        addr = vbase + structs["vcpu"].size * \
                            op["core"] + f.offset
                        if f.count != 1 and not f.perl.startswith("A"):
                            continue      # multi-word pad field: not readable
                        if kind == "vcpu_read":
                            raw = chip.mem.read(addr, f.size)
                            got = mc.read_vcpu_struct_field(op["field"],
                                                            *XYC)
                            if f.perl.startswith("A"):
                                want = raw.strip(b"\0").decode("utf-8",
                                                               "replace")
                            else:
                                want = f.unpack(raw)
                            require(got == want, "read_vcpu_struct_field "
                                    "does not return the core's field",
                                    {"field": op["field"], "core": op["core"],
                                     "got": repr(got), "expected": repr(want)})
                        else:
                            lo, hi = addr, addr + f.size
                            if f.perl.startswith("A"):
                                # names are text, stored as UTF-8
                                val = ["app%d", "caf\u00e9%d", "r\u00e9s-"
                                       "\u00fc%d"][op["value"] % 3] % (
                                    op["value"] % 1000)
                                want = val.encode("utf-8").ljust(f.size,
                                                                 b"\0")
                            else:
                                val = op["value"] & \
                                    ((1 << (8 * f.elem_size)) - 1)
                                want = f.pack(val)
                            mc.write_vcpu_struct_field(op["field"], val,
                                                       *XYC)
                            got = chip.mem.read(addr, f.size)
                            require(got == want, "write_vcpu_struct_field "
                                    "did not store the value in the core's "
                                    "block", {"field": op["field"],
                                              "core": op["core"],
                                              "address": hex(addr)})
                        nontrivial |= op["core"] > 0
                    else:
                        other = m.chips[((chip.x + scamp.LINK_VEC[op["link"]]
                                          [0]) % 2,
                                         (chip.y + scamp.LINK_VEC[op["link"]]
                                          [1]) % 2)]
                        if kind == "link_read":
                            want = other.mem.read(op["addr"], op["n"])
                            if ctx:
                                got = mc.read_across_link(
                                    op["addr"], op["n"], link=op["link"])
                            else:
                                got = mc.read_across_link(
                                    op["addr"], op["n"], x, y, op["link"])
                            require(bytes(got) == want, "read_across_link "
                                    "did not return the neighbour's bytes",
                                    {"address": hex(op["addr"]),
                                     "length": op["n"]})
                        else:
                            data = base64.b64decode(op["data"])
                            lo, hi = op["addr"], op["addr"] + len(data)
                            if ctx:
                                mc.write_across_link(op["addr"], data,
                                                     link=op["link"])
                            else:
                                mc.write_across_link(op["addr"], data, x, y,
                                                     op["link"])
                            got = other.mem.read(lo, len(data))
                            require(got == data, "write_across_link did not "
                                    "leave the bytes on the neighbour",
                                    {"address": hex(lo)})
                            chip = other
                        nontrivial |= op["n"] > (case["buffer"] & ~3)
                _expect_only(m, snaps, chip, lo, hi, what)
                classes.add(kind)
            except SCPError as e:
                classes.add("scp-error")
                if kind == "link_write":
                    chip = other
                _expect_only(m, snaps, chip, lo, hi, what)
                # the program carries on with the same controller
                continue
            finally:
                if block is not None:
                    block.__exit__(None, None, None)
                if m.violations:
                    msg, det = m.violations[0]
                    raise Violation("%s: malformed command: %s" % (kind, msg),
                                    det)
    if plan is not None and plan.used:
        classes.update("fault:" + u for u in set(plan.used)
                       if u not in ("ok",))
    return {"nontrivial": nontrivial, "classes": sorted(classes)}


def _first_diff(a, b):
    for i, (p, q) in enumerate(zip(a, b)):
        if p != q:
            return {"offset": i, "got": p, "expected": q}
    return {"length_got": len(a), "length_expected": len(b)}


RULE = ("1-6/10 operations (read, write, fill, struct and per-core fields, "
        "across links; through the controller and directly through "
        "SCPConnection with window 1-8) with every alignment of start and "
        "end, lengths 0 to 5 buffers, advertised buffer 16-512 incl. "
        "non-multiples of 4; non-trivial = a transfer spanning >= 2 chunks or "
        "with an unaligned start or end, or a per-core access to core > 0")

# ---------------------------------------------- caller-supplied struct files

PACKS = {"C": ("<B", 1, 0xff), "v": ("<H", 2, 0xffff),
         "V": ("<I", 4, 0xffffffff)}


def _numtext(n, style):
    return ("0x%x" % n) if style == "hex" else ("0x%02X" % n) \
        if style == "HEX" else str(n)


@st.composite
def strat_structs(draw, tier):
    """A struct definition file of the caller's own (the documented format:
    name/size/base headers and `field pack offset printf default` lines with
    numbers in decimal or 0x-hexadecimal) appended to the stock file, then
    reads and writes of its fields."""
    structs = []
    for si in range(draw(st.integers(1, 2))):
        style = draw(st.sampled_from(["hex", "dec", "dec", "HEX", "mixed"]))
        fields = []
        off = draw(st.integers(0, 12))
        for fi in range(draw(st.integers(1, 7))):
            pack = draw(st.sampled_from(["C", "v", "V", "V"]))
            count = draw(st.sampled_from([1, 1, 1, 2, 3]))
            size = PACKS[pack][1] * count
            fields.append({"name": "f%d" % fi, "pack": pack, "count": count,
                           "offset": off,
                           "style": style if style != "mixed" else
                           draw(st.sampled_from(["hex", "dec"])),
                           "default": draw(st.integers(0, 200))})
            off += size + draw(st.sampled_from([0, 0, 1, 2, 4, 9]))
        structs.append({"name": "own%d" % si, "fields": fields,
                        "size": off, "style": style,
                        "base": BASE + 0x40 + 0x200 * si +
                        4 * draw(st.integers(0, 16))})
    ops = []
    for _ in range(draw(st.integers(1, 8))):
        s_ = draw(st.sampled_from(structs))
        f = draw(st.sampled_from(s_["fields"]))
        top = PACKS[f["pack"]][2]
        ops.append({"write": draw(st.booleans()), "struct": s_["name"],
                    "field": f["name"],
                    "chip": draw(st.sampled_from([[0, 0], [1, 0], [1, 1]])),
                    "values": [draw(st.one_of(st.integers(0, top),
                                              st.just(top)))
                               for _ in range(f["count"])]})
    vops = []
    for _ in range(draw(st.integers(0, 3))):
        vops.append({"write": draw(st.booleans()),
                     "field": draw(st.sampled_from(
                         ["cpu_state", "app_id", "sw_count", "user0", "r3",
                          "time"])),
                     "core": draw(st.integers(0, 17)),
                     "chip": draw(st.sampled_from([[0, 0], [1, 0], [1, 1]])),
                     "value": draw(st.integers(0, 0xffffffff))})
    return {"buffer": draw(st.sampled_from([32, 256])), "structs": structs,
            "ops": ops,
            # the caller's file may give the per-core struct a base of its
            # own (older struct files did): per-core fields still live in the
            # core's block, block base + core x block size + offset
            "vcpu_decl_base": draw(st.sampled_from([0, 0, 0xe5007000, 0x40])),
            "vcpu_ops": vops,
            # half way through, the controller is given new definitions of
            # the same structs (as a boot with another struct file does): every
            # field lies `relayout` bytes further on
            "relayout": draw(st.sampled_from([0, 0, 4, 8]))}


def struct_text(structs):
    lines = []
    for s_ in structs:
        st_ = s_["style"] if s_["style"] != "mixed" else "hex"
        lines += ["", "name = %s" % s_["name"],
                  "size = %s" % _numtext(s_["size"], st_),
                  "base = 0x%08x" % s_["base"], ""]
        for f in s_["fields"]:
            name = f["name"] if f["count"] == 1 else \
                "%s[%d]" % (f["name"], f["count"])
            lines.append("%-12s %s  %-6s %%d  %s   # %s" % (
                name, f["pack"], _numtext(f["offset"], f["style"]),
                _numtext(f["default"], f["style"]), "a field"))
    return "\n".join(lines) + "\n"


def check_structs(case):
    from rig.machine_control import MachineController
    from rig.machine_control.struct_file import read_struct_file
    m = _machine({"buffer": case["buffer"], "vcpu_base": scamp.VCPU_BASE})
    repo = os.environ.get("RIG_REPO", "/repo")
    with open(os.path.join(repo, "rig", "boot", "sark.struct"), "rb") as f:
        stock = f.read()
    if case.get("vcpu_decl_base"):
        head = b"name = vcpu\nsize = 128\nbase = 0\n"
        if stock.count(head) != 1:
            raise HarnessError("stock struct file: vcpu header not found")
        stock = stock.replace(head, b"name = vcpu\nsize = 128\nbase = 0x%x\n"
                              % case["vcpu_decl_base"])
    text = stock + b"\n" + struct_text(case["structs"]).encode()
    by_name = dict((s_["name"], s_) for s_ in case["structs"])
    nontrivial = False
    with World(m) as w:
        with sut("read_struct_file"):
            defs = read_struct_file(text)
        with sut("MachineController(structs=...)"):
            mc = MachineController("spinn-0-0", structs=defs)
        for i, op in enumerate(case["ops"]):
            if case.get("relayout") and i == (len(case["ops"]) + 1) // 2:
                import copy
                moved = copy.deepcopy(case["structs"])
                for s2 in moved:
                    s2["size"] += case["relayout"]
                    for g in s2["fields"]:
                        g["offset"] += case["relayout"]
                by_name = dict((s2["name"], s2) for s2 in moved)
                with sut("replacing the struct definitions"):
                    mc.structs = read_struct_file(
                        stock + b"\n" + struct_text(moved).encode())
            s_ = by_name[op["struct"]]
            f = [g for g in s_["fields"] if g["name"] == op["field"]][0]
            fmt, size, top = PACKS[f["pack"]]
            addr = s_["base"] + f["offset"]
            n = size * f["count"]
            x, y = op["chip"]
            chip = m.chips[(x, y)]
            det = {"op": i, "struct": s_["name"], "field": f["name"],
                   "offset": f["offset"], "offset_written_as":
                   _numtext(f["offset"], f["style"]),
                   "expected_address": hex(addr)}
            if f["offset"] >= 10 and f["style"] == "dec":
                nontrivial = True
            if op["write"]:
                snaps = dict((xy, c.mem.snapshot())
                             for xy, c in m.chips.items())
                vals = op["values"]
                with sut("write_struct_field"):
                    mc.write_struct_field(s_["name"], f["name"],
                                          vals[0] if f["count"] == 1
                                          else tuple(vals), x, y)
                want = b"".join(struct.pack(fmt, v) for v in vals)
                require(chip.mem.read(addr, n) == want, "write_struct_field "
                        "did not store the value at the field's offset in "
                        "the struct", dict(det, stored=chip.mem.read(
                            addr, n).hex(), expected=want.hex()))
                _expect_only(m, snaps, chip, addr, addr + n,
                             "write_struct_field")
            else:
                with sut("read_struct_field"):
                    got = mc.read_struct_field(s_["name"], f["name"], x, y)
                raw = chip.mem.read(addr, n)
                want = [struct.unpack_from(fmt, raw, k * size)[0]
                        for k in range(f["count"])]
                got = [got] if f["count"] == 1 else list(got)
                require(got == want, "read_struct_field did not return the "
                        "bytes at the field's offset in the struct",
                        dict(det, got=got, expected=want))
        for op in case.get("vcpu_ops", []):
            x, y = op["chip"]
            chip = m.chips[(x, y)]
            f = m.structs["vcpu"].fields[op["field"]]
            vb = m.structs["sv"].fields["vcpu_base"]
            addr = vb.unpack(chip.mem.read(
                m.structs["sv"].base + vb.offset, 4)) + \
                m.structs["vcpu"].size * op["core"] + f.offset
            det = {"field": op["field"], "core": op["core"],
                   "declared_base_of_vcpu": hex(case.get("vcpu_decl_base", 0)),
                   "expected_address": hex(addr)}
            if op["write"]:
                snaps = dict((xy, c.mem.snapshot())
                             for xy, c in m.chips.items())
                val = op["value"] & ((1 << (8 * f.elem_size)) - 1)
                with sut("write_vcpu_struct_field"):
                    mc.write_vcpu_struct_field(op["field"], val, x, y,
                                               op["core"])
                require(chip.mem.read(addr, f.size) == f.pack(val),
                        "write_vcpu_struct_field did not store the value in "
                        "the core's block", det)
                _expect_only(m, snaps, chip, addr, addr + f.size,
                             "write_vcpu_struct_field")
            else:
                with sut("read_vcpu_struct_field"):
                    got = mc.read_vcpu_struct_field(op["field"], x, y,
                                                    op["core"])
                want = f.unpack(chip.mem.read(addr, f.size))
                require(got == want, "read_vcpu_struct_field does not return "
                        "the core's field", dict(det, got=repr(got),
                                                 expected=repr(want)))
    if m.violations:
        raise Violation("malformed command: %s" % m.violations[0][0],
                        m.violations[0][1])
    return {"nontrivial": nontrivial,
            "classes": sorted(set("offsets-" + s_["style"]
                                  for s_ in case["structs"])) +
            (["vcpu-with-declared-base"] if case.get("vcpu_decl_base") and
             case.get("vcpu_ops") else [])}


CLAUSES = [
    Clause("perfect-network", check_ops,
           strategy=lambda tier: strat_ops(tier, False), rule=RULE,
           examples={"quick": 500, "thorough": 8000},
           shards={"quick": 8, "thorough": 16}),
    Clause("faulty-network", check_ops,
           strategy=lambda tier: strat_ops(tier, True),
           rule=RULE + "; a fault plan loses, delays, duplicates replies or "
                "substitutes retryable codes",
           examples={"quick": 400, "thorough": 8000},
           shards={"quick": 8, "thorough": 16}),
    Clause("own-struct-file", check_structs, strategy=strat_structs,
           rule="1-2 struct definitions of the caller's own (fields C/v/V, "
                "arrays, gaps; numbers written in decimal, 0x-hex or mixed) "
                "appended to the stock file and passed as structs=; 1-8 "
                "field reads/writes judged against base+offset computed from "
                "the generated definition; non-trivial = a field with a "
                "decimal offset >= 10 is accessed",
           examples={"quick": 250, "thorough": 4000},
           shards={"quick": 4, "thorough": 16}),
]
