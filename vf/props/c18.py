"""C18 Commands go to the chip, core and application the caller named."""
import inspect
import os
import shutil
import struct
import tempfile

from hypothesis import strategies as st

from vf.core import Clause, HarnessError, Violation, require, sut
from vf.oracle import boardtile
from vf.sim import bmp as simbmp
from vf.sim import scamp
from vf.sim.world import World

PROPERTY_ID = "C18"
LEVEL = "exploration"
IMPORTS = ["rig.machine_control", "rig.machine_control.bmp_controller",
           "rig.utils.contexts"]
ASSUMPTIONS = [
    "reference resolver: explicit argument > innermost enclosing context "
    "that sets it > the method's default; a Required argument left "
    "unresolved must raise TypeError before any datagram is sent",
    "passing-style invariance: the datagrams of a call depend only on the "
    "resolved values of the method's own arguments, not on how they were "
    "passed nor on unrelated entries of the context",
    "destination table: per-chip methods address (x, y) and core p (core 0 "
    "for methods without a core argument); flood fill, signals and counts "
    "are sent to (255, 255) core 0; the application id travels in the "
    "alloc/free, router-load, signal and flood-fill-end argument fields",
    "every method wrapped by use_contextual_arguments is discovered by "
    "introspection and must have a recipe here, otherwise the run fails as "
    "incomplete",
    "connections: with discovered connections a command travels over the "
    "socket of the Ethernet chip of the target's board (vf/oracle/boardtile)",
]

# --------------------------------------------------------------- recipes
# name -> (base arguments by name, kind).  kind: chip / bcast / special
SDRAM = 0x60500000


def mc_recipes(tmpfile):
    from rig.routing_table import RoutingTableEntry, Routes
    entries = [RoutingTableEntry({Routes.east, Routes.core(3)}, 0x10, 0xf0),
               RoutingTableEntry({Routes.north}, 0x20, 0xf0)]
    return {
        "send_scp": ({"_args": [0]}, "chip"),
        "get_software_version": ({}, "chip"),
        "get_ip_address": ({}, "chip"),
        "write": ({"address": SDRAM, "data": b"12345"}, "chip"),
        "read": ({"address": SDRAM + 1, "length_bytes": 300}, "chip"),
        "write_across_link": ({"address": SDRAM, "data": b"abcd",
                               "link": 0}, "chip"),
        "read_across_link": ({"address": SDRAM, "length_bytes": 8,
                              "link": 2}, "chip"),
        "read_struct_field": ({"struct_name": "sv",
                               "field_name": "cpu_clk"}, "chip"),
        "write_struct_field": ({"struct_name": "sv", "field_name": "led0",
                                "values": 5}, "chip"),
        # p names the core whose data is accessed; the commands themselves
        # are served by the monitor (core 0), as with explicit arguments
        "read_vcpu_struct_field": ({"field_name": "user0"}, "monitor"),
        "write_vcpu_struct_field": ({"field_name": "user1", "value": 9},
                                    "monitor"),
        "get_processor_status": ({}, "monitor"),
        "get_iobuf": ({}, "monitor"),
        "get_iobuf_bytes": ({}, "monitor"),
        "get_router_diagnostics": ({}, "chip"),
        "iptag_set": ({"iptag": 2, "addr": "10.0.0.9", "port": 5000},
                      "chip"),
        "iptag_get": ({"iptag": 2}, "chip"),
        "iptag_clear": ({"iptag": 2}, "chip"),
        "set_led": ({"led": 1, "action": True}, "chip"),
        "fill": ({"address": SDRAM, "data": 0xab, "size": 8}, "chip"),
        "sdram_alloc": ({"size": 40, "tag": 3}, "chip"),
        "sdram_alloc_as_filelike": ({"size": 24}, "chip"),
        "sdram_free": ({"ptr": scamp.SDRAM_BASE}, "chip"),
        "flood_fill_aplx": ({"_args": [tmpfile, {(1, 1): {2, 3}}]}, "bcast"),
        "load_application": ({"_args": [tmpfile, {(1, 0): {4}}]}, "load"),
        "send_signal": ({"signal": "sync0"}, "bcast"),
        "count_cores_in_state": ({"state": "run"}, "bcast"),
        "wait_for_cores_to_reach_state": ({"state": "run", "count": 0},
                                          "bcast"),
        "load_routing_tables": ({"routing_tables": {(1, 1): entries}},
                                "tables"),
        "load_routing_table_entries": ({"entries": entries}, "chip"),
        "get_routing_table_entries": ({}, "chip"),
        "clear_routing_table_entries": ({}, "chip"),
        "get_p2p_routing_table": ({}, "chip"),
        "get_chip_info": ({}, "chip"),
        "get_working_links": ({}, "chip"),
        "get_num_working_cores": ({}, "chip"),
        "get_system_info": ({}, "sysinfo"),
        "discover_connections": ({}, "special"),
        "application": ({}, "special"),
    }


BMP_RECIPES = {
    "send_scp": ({"_args": [0]}, "board"),
    "get_software_version": ({}, "board"),
    "set_power": ({"state": False}, "power"),
    "set_led": ({"led": 2, "action": False}, "board"),
    "read_fpga_reg": ({"fpga_num": 1, "addr": 0x40}, "board"),
    "write_fpga_reg": ({"fpga_num": 2, "addr": 0x44, "value": 7}, "board"),
    "read_adc": ({}, "board"),
}

MC_CTX = ["x", "y", "p", "app_id", "processor"]
BMP_CTX = ["cabinet", "frame", "board"]


def wrapped_methods(cls):
    out = {}
    for name, fn in inspect.getmembers(cls, inspect.isfunction):
        if hasattr(fn, "__wrapped__") and not name.startswith("_"):
            out[name] = fn
    return out


def method_params(fn):
    """(ordered positional parameter names after self, has *args)"""
    spec = inspect.getfullargspec(fn.__wrapped__)
    return spec.args[1:], spec.varargs is not None, spec


def contextual_params(fn, pool):
    """Names from `pool` the method accepts -> default (or 'Required')."""
    from rig.utils.contexts import Required
    spec = inspect.getfullargspec(fn.__wrapped__)
    args = spec.args[1:]
    defaults = list(spec.defaults or [])
    defaults = [Required] * (len(args) - len(defaults)) + defaults
    out = {}
    for a, d in zip(args, defaults):
        if a in pool:
            out[a] = d
    # keyword-only arguments declared to the decorator: visible through the
    # closure of the wrapper
    closure = dict(zip(fn.__code__.co_freevars,
                       (c.cell_contents for c in fn.__closure__ or ())))
    for a, d in (closure.get("kw_only_args_defaults") or {}).items():
        if a in pool:
            out[a] = d
    return out


# ---------------------------------------------------------------- strategy

@st.composite
def strat_call(draw, tier, which):
    if which == "mc":
        names = sorted(n for n, (b, k) in mc_recipes("f").items()
                       if k != "special")
        pool = {"x": st.integers(0, 1), "y": st.integers(0, 1),
                "p": st.integers(0, 17), "app_id": st.integers(1, 255),
                "processor": st.integers(0, 17)}
    else:
        names = sorted(BMP_RECIPES)
        pool = {"cabinet": st.integers(0, 1), "frame": st.integers(0, 1),
                "board": st.integers(0, 3)}
    name = draw(st.sampled_from(names))
    values = dict((k, draw(s)) for k, s in sorted(pool.items()))
    if which == "bmp" and name == "set_led" and draw(st.booleans()):
        # several boards of one frame, in any order: the command goes to the
        # first one named
        values["board"] = draw(st.lists(st.integers(0, 3), min_size=1,
                                        max_size=3, unique=True))
    styles = dict((k, draw(st.sampled_from(["kw", "ctx", "ctx", "default",
                                            "pos"])))
                  for k in sorted(pool))
    # the context stack: outer levels hold decoys that inner levels override
    depth = draw(st.integers(1, 3))
    decoys = [dict((k, draw(pool[k])) for k in draw(st.sets(
        st.sampled_from(sorted(pool)), max_size=len(pool))))
        for _ in range(depth - 1)]
    extra = dict((k, draw(pool[k])) for k in draw(st.sets(
        st.sampled_from(sorted(pool)), max_size=len(pool))))
    # the context the controller is created with: the documented default
    # (None), nothing at all, or some of the contextual arguments
    initial = draw(st.one_of(
        st.none(), st.none(), st.just({}),
        st.sets(st.sampled_from(sorted(pool)), max_size=2).map(sorted)))
    if isinstance(initial, list):
        initial = dict((k, draw(pool[k])) for k in initial)
    return {"which": which, "method": name, "values": values,
            "styles": styles, "decoys": decoys, "extra": extra,
            "initial_context": initial,
            "update": draw(st.booleans())}


# ---------------------------------------------------------------- execution

def make_machine():
    m = scamp.Machine(2, 2, buffer_size=256).populate()
    for c in m.chips.values():
        c.eth_up = (c.x, c.y) == (0, 0)
        c.ip = (10, 0, c.x, c.y)
        c.allocs[scamp.SDRAM_BASE] = (64, 66, 0)
        c.heap_next = scamp.SDRAM_BASE + 128
        for core in c.cores[1:]:
            core.state = 7
    m.sync()
    return m


def _wire(log):
    """Comparable form of the datagrams (sequence numbers removed)."""
    return [(e["conn"], e["x"], e["y"], e["p"], e["cmd"], e["arg1"],
             e["arg2"], e["arg3"], e["data"]) for e in log]


def call_method(obj, fn_name, base, ctx_params, values, styles, decoys,
                extra, update, initial=None):
    """Call obj.<fn_name> with each contextual parameter passed in the style
    asked for.  Returns (resolved values by the reference resolver,
    TypeError or None, result)."""
    fn = getattr(type(obj), fn_name)
    order, has_varargs, spec = method_params(fn)
    args = list(base.get("_args", []))
    kwargs = {}
    inner = {}
    explicit = {}
    positional_ok = not has_varargs
    for name in order:
        if name in base:
            if positional_ok:
                args.append(base[name])
            else:
                kwargs[name] = base[name]
        elif name in ctx_params:
            style = styles.get(name, "kw")
            if style == "pos" and positional_ok:
                args.append(values[name])
                explicit[name] = values[name]
                continue
            positional_ok = False
            if style in ("pos", "kw"):
                kwargs[name] = values[name]
                explicit[name] = values[name]
            elif style == "ctx":
                inner[name] = values[name]
        else:
            positional_ok = False      # an ordinary argument left to default
    for name in ctx_params:
        if name not in order:          # keyword-only contextual parameters
            style = styles.get(name, "kw")
            if style in ("pos", "kw"):
                kwargs[name] = values[name]
                explicit[name] = values[name]
            elif style == "ctx":
                inner[name] = values[name]
    for k, v in extra.items():         # entries the method does not take
        if k not in ctx_params:
            inner[k] = v
    # ---- reference resolver
    contexts = [dict(obj.get_context_arguments() if initial is None
                     else initial)] + \
        [dict(d) for d in decoys] + [inner]
    resolved = {}
    for name, default in ctx_params.items():
        if name in explicit:
            resolved[name] = explicit[name]
            continue
        for c in reversed(contexts):
            if name in c:
                resolved[name] = c[name]
                break
        else:
            resolved[name] = default
    stack = []
    try:
        for d in decoys:
            c = obj(**d)
            c.__enter__()
            stack.append(c)
        if update:
            c = obj()
            c.__enter__()
            stack.append(c)
            obj.update_current_context(**inner)
        else:
            c = obj(**inner)
            c.__enter__()
            stack.append(c)
        err = None
        result = None
        from rig.machine_control.scp_connection import SCPError
        try:
            result = getattr(obj, fn_name)(*args, **kwargs)
        except (TypeError, SCPError) as e:
            err = e
        return resolved, err, result
    finally:
        for c in reversed(stack):
            c.__exit__(None, None, None)


def check_call(case):
    from rig.utils.contexts import Required
    from rig.machine_control.scp_connection import SCPError
    which = case["which"]
    tmp = tempfile.mkdtemp(prefix="vf-c18-")
    try:
        path = os.path.join(tmp, "a.aplx")
        with open(path, "wb") as f:
            f.write(bytes(range(64)))
        if which == "mc":
            recipes = mc_recipes(path)
        else:
            recipes = BMP_RECIPES
        base, kind = recipes[case["method"]]
        runs = []
        # run 0: the generated passing styles; run 1: reference (everything
        # by keyword, empty context)
        for ref in (False, True):
            if which == "mc":
                m = make_machine()
                world = World(m)
            else:
                m = None
                world = World(scamp.Machine(1, 1).populate())
                boards = {}
                for c in range(2):
                    for f_ in range(2):
                        b = simbmp.BMP("bmp-%d-%d" % (c, f_))
                        boards[(c, f_)] = b
                        world.net.attach(b.name, 17893, b)
                b = simbmp.BMP("bmp-0-0-2")
                boards[(0, 0, 2)] = b
                world.net.attach(b.name, 17893, b)
            with world:
                with sut("controller construction"):
                    init = None if ref else case.get("initial_context")
                    ikw = {} if init is None else {"initial_context":
                                                   dict(init)}
                    if which == "mc":
                        obj = world.controller(**ikw)
                        obj.scp_data_length       # probe once, up front
                        log = m.log
                        pool = MC_CTX
                    else:
                        from rig.machine_control.bmp_controller import \
                            BMPController
                        obj = BMPController(dict(
                            (k, v.name) for k, v in boards.items()), **ikw)
                        obj._scp_data_length = 256
                        log = []
                        pool = BMP_CTX
                fn = getattr(type(obj), case["method"])
                ctx_params = contextual_params(fn, pool)
                n0 = len(log) if which == "mc" else 0
                try:
                    with sut(case["method"], (SCPError,)):
                        if ref:
                            styles = dict((k, "kw") for k in ctx_params)
                            res, err, out = call_method(
                                obj, case["method"], base, ctx_params,
                                runs[0]["resolved_values"], styles, [], {},
                                False)
                        else:
                            res, err, out = call_method(
                                obj, case["method"], base, ctx_params,
                                case["values"], case["styles"],
                                case["decoys"], case["extra"],
                                case["update"], init)
                except SCPError as e:
                    res, err, out = {}, e, None
                if which == "mc":
                    wire = _wire(log[n0:])
                else:
                    wire = []
                    for b in boards.values():
                        wire += _wire(b.log)
                ctx_after = obj.get_context_arguments()
            values = dict((k, (case["values"][k] if v is Required else v))
                          for k, v in res.items())
            runs.append({"resolved": res, "err": err, "wire": wire,
                         "resolved_values": values, "ctx_after": ctx_after,
                         "result": out})
            if not ref:
                missing = [k for k, v in res.items() if v is Required]
                if missing:
                    require(isinstance(err, TypeError), "a call lacking a "
                            "required contextual argument is not rejected "
                            "with TypeError", {"method": case["method"],
                                               "missing": missing,
                                               "error": repr(err)})
                    require(not wire, "a rejected call put datagrams on the "
                            "wire", {"method": case["method"],
                                     "datagrams": len(wire)})
                    return {"documented": True, "nontrivial": True,
                            "classes": ["rejected", case["method"]]}
                require(not isinstance(err, TypeError), "a call with every "
                        "argument resolvable is rejected",
                        {"method": case["method"], "error": repr(err),
                         "resolved": repr(res)})
        a, b = runs
        det = {"method": case["method"], "resolved": repr(a["resolved"]),
               "styles": case["styles"], "extra_context": case["extra"],
               "decoys": case["decoys"]}
        # ---- destination table
        r = a["resolved"]
        for e in a["wire"]:
            conn, x, y, p, cmd, a1, a2, a3, data = e
            if which == "bmp":
                board = r["board"]
                first = board if isinstance(board, int) else board[0]
                if kind == "power":
                    require(p == 0 and a2 == 1 << first, "set_power does not "
                            "address board 0 with the board's bit mask",
                            dict(det, cpu=p, mask=a2))
                else:
                    require(p == first, "BMP command sent to another board "
                            "than the (first) one named",
                            dict(det, got=p, expected=first))
                    if case["method"] == "set_led":
                        boards = [board] if isinstance(board, int) else board
                        require(a2 == sum(1 << b for b in boards), "set_led "
                                "does not carry the bit mask of the boards "
                                "named", dict(det, mask=a2))
                host = "bmp-%d-%d" % (r["cabinet"], r["frame"])
                tgt = 0 if kind == "power" else first
                if (r["cabinet"], r["frame"], tgt) == (0, 0, 2):
                    host = "bmp-0-0-2"
                require(conn == host, "BMP command sent over another "
                        "connection than the most specific one for the "
                        "board", dict(det, got=conn, expected=host))
                continue
            if kind in ("chip", "monitor"):
                core = 0 if kind == "monitor" else \
                    r.get("p", r.get("processor", 0))
                require((x, y) == (r["x"], r["y"]), "a command is addressed "
                        "to another chip than the one named",
                        dict(det, got=[x, y], expected=[r["x"], r["y"]]))
                require(p == core, "a command is addressed to another core "
                        "than the one named (core 0 for methods without a "
                        "core argument)", dict(det, got=p, expected=core,
                                               command=cmd))
            elif kind == "sysinfo":
                # exploration begins at the chip named: the point-to-point
                # table (the only memory reads of the probe) is that chip's
                if cmd == 2:
                    require((x, y, p) == (r["x"], r["y"], 0), "the "
                            "point-to-point table is not read from the chip "
                            "the exploration was to begin at",
                            dict(det, got=[x, y, p],
                                 expected=[r["x"], r["y"], 0]))
            elif kind == "bcast":
                require((x, y, p) == (255, 255, 0), "a flood-fill / signal "
                        "command is not addressed to (255, 255) core 0",
                        dict(det, got=[x, y, p]))
            if "app_id" in r:
                app = None
                if cmd == 28 and (a1 & 0xff) in (0, 3, 5):
                    app = (a1 >> 8) & 0xff
                elif cmd == 29:
                    app = (a1 >> 8) & 0xff
                elif cmd == 22:
                    app = a2 & 0xff
                elif cmd == 20 and a1 >> 24 == 15:
                    app = a2 >> 24
                if app is not None:
                    require(app == r["app_id"], "a command carries another "
                            "application id than the one named",
                            dict(det, got=app, expected=r["app_id"],
                                 command=cmd))
        # ---- passing-style invariance
        require(a["wire"] == b["wire"], "the same call with the same "
                "resolved arguments puts different commands on the wire "
                "depending on how the arguments were passed / what else is "
                "in the context",
                dict(det, first_difference=_first_wire_diff(a["wire"],
                                                            b["wire"])))
        depth = len(case["decoys"]) + 1
        return {"nontrivial": depth >= 2 or bool(case["extra"]),
                "classes": [case["method"]]}
    finally:
        shutil.rmtree(tmp, ignore_errors=True)


def _first_wire_diff(a, b):
    for i, (p, q) in enumerate(zip(a, b)):
        if p != q:
            return {"index": i, "styled": repr(p[:8]), "reference": repr(
                q[:8])}
    return {"lengths": [len(a), len(b)]}


def check_complete_table(case):
    """Every wrapped method has a recipe (introspection)."""
    from rig.machine_control import MachineController
    from rig.machine_control.bmp_controller import BMPController
    missing = sorted(set(wrapped_methods(MachineController)) -
                     set(mc_recipes("f")))
    missing += sorted("BMP." + n for n in
                      set(wrapped_methods(BMPController)) - set(BMP_RECIPES))
    if missing:
        raise HarnessError("methods wrapped by use_contextual_arguments "
                           "without a recipe: %s" % missing)
    return {"nontrivial": True}


# ----------------------------------------------------------- context blocks

@st.composite
def strat_blocks(draw, tier):
    steps = []
    pool = {"x": st.integers(0, 1), "y": st.integers(0, 1),
            "p": st.integers(0, 17), "app_id": st.integers(1, 255)}
    for _ in range(draw(st.integers(1, 14 if tier == "thorough" else 9))):
        kind = draw(st.sampled_from(["enter", "enter", "exit", "raise",
                                     "update", "app", "probe", "probe",
                                     "reenter", "failing-call", "other"]))
        s = {"op": kind}
        if kind == "other":
            # something done with ANOTHER controller of the same program
            s["how"] = draw(st.sampled_from(["update", "enter"]))
        if kind in ("enter", "update", "other"):
            s["args"] = dict((k, draw(pool[k])) for k in draw(st.sets(
                st.sampled_from(sorted(pool)), max_size=4)))
        elif kind == "app":
            s["app_id"] = draw(st.one_of(st.integers(0, 255),
                                         st.sampled_from([0, 1, 255])))
            s["style"] = draw(st.sampled_from(["pos", "kw", "ctx"]))
        elif kind == "raise":
            s["levels"] = draw(st.integers(1, 3))
            # what leaves the blocks: an ordinary exception, or an interrupt
            # / interpreter exit (which are not Exception subclasses)
            s["exc"] = draw(st.sampled_from(["Exception", "Exception",
                                             "KeyboardInterrupt",
                                             "SystemExit"]))
        elif kind == "probe":
            s["explicit"] = dict((k, draw(pool[k])) for k in draw(st.sets(
                st.sampled_from(["x", "y", "p"]), max_size=3)))
        elif kind == "reenter":
            s["which"] = draw(st.integers(0, 9))
        elif kind == "failing-call":
            s["how"] = draw(st.sampled_from(["ValueError", "timeout"]))
        steps.append(s)
    return {"steps": steps}


class _Boom(Exception):
    pass


def check_blocks(case):
    m = make_machine()
    with World(m) as w:
        with sut("MachineController"):
            mc = w.controller()
            mc.scp_data_length
            other = w.controller()
        # stack of dicts; a context object entered twice contributes the SAME
        # dict twice (updates through one entry show through the other)
        model = [dict(mc.get_context_arguments())]
        apps = [None]                                   # app id per level
        stack = []
        created = []                   # (context object, its dict, app id)
        nontrivial = False

        def merged():
            out = {}
            for d in model:
                out.update(d)
            return out

        def leave(exc):
            nonlocal nontrivial
            ctx = stack.pop()
            before = len(m.signals)
            with sut("leaving a context block"):
                if exc:
                    et = {"KeyboardInterrupt": KeyboardInterrupt,
                          "SystemExit": SystemExit}.get(exc, _Boom)
                    try:
                        ctx.__exit__(et, et(), None)
                    except _Boom:
                        pass
                    nontrivial = True
                else:
                    ctx.__exit__(None, None, None)
            app = apps.pop()
            model.pop()
            sigs = [s for s in m.signals[before:] if s[0] == "signal"]
            if app == "unspecified":
                require(len(sigs) == 1 and sigs[0][1] == 2, "leaving an "
                        "application block does not send one stop signal",
                        {"signals": sigs})
            elif app is not None:
                require(len(sigs) == 1 and sigs[0][1] == 2 and
                        sigs[0][2] == app, "leaving an application block "
                        "does not send exactly one stop signal for its "
                        "application", {"app_id": app, "signals": sigs})
            else:
                require(not sigs, "leaving a plain context block sends a "
                        "signal", {"signals": sigs})
            require(mc.get_context_arguments() == merged(), "leaving a "
                    "context block does not restore the arguments in force "
                    "before it", {"got": mc.get_context_arguments(),
                                  "expected": merged()})

        for step in case["steps"]:
            op = step["op"]
            if op == "enter":
                with sut("entering a context"):
                    c = mc(**step["args"])
                    c.__enter__()
                stack.append(c)
                model.append(dict(step["args"]))
                apps.append(None)
                created.append((c, model[-1], None))
                if len(stack) >= 2:
                    nontrivial = True
            elif op == "reenter":
                if not created:
                    continue
                c, d, app = created[step["which"] % len(created)]
                with sut("re-entering a context object"):
                    c.__enter__()
                stack.append(c)
                model.append(d)
                apps.append(app if app is None else
                            d.get("app_id", app))
                nontrivial = True
            elif op == "failing-call":
                # a documented exception raised from inside a method must not
                # disturb how later calls are resolved
                from rig.machine_control.scp_connection import SCPError
                try:
                    with sut("a failing call", (ValueError, SCPError)):
                        if step["how"] == "ValueError":
                            mc.read_across_link(SDRAM + 1, 4, 0, 0, 0)
                        else:
                            mc.read(SDRAM, 4, 7, 7)
                    require(False, "a call that must fail returned", {})
                except (ValueError, SCPError):
                    pass
            elif op == "app":
                with sut("entering an application block"):
                    if step["style"] == "pos":
                        c = mc.application(step["app_id"])
                    elif step["style"] == "kw":
                        c = mc.application(app_id=step["app_id"])
                    else:
                        with mc(app_id=step["app_id"]):
                            c = mc.application()
                    c.__enter__()
                stack.append(c)
                model.append({"app_id": step["app_id"]})
                apps.append(step["app_id"])
                created.append((c, model[-1], step["app_id"]))
            elif op == "update":
                with sut("update_current_context"):
                    mc.update_current_context(**step["args"])
                model[-1].update(step["args"])
                if "app_id" in step["args"] and apps[-1] is not None:
                    # which application an updated application block stops
                    # is not specified: not asserted (for every level at
                    # which this very context object is entered)
                    for lvl in range(len(model)):
                        if model[lvl] is model[-1]:
                            apps[lvl] = "unspecified"
            elif op == "other":
                # contexts belong to the controller they were made on
                with sut("using another controller"):
                    if step["how"] == "update":
                        other.update_current_context(**step["args"])
                    else:
                        other(**step["args"]).__enter__()
            elif op == "exit":
                if stack:
                    leave(False)
            elif op == "raise":
                for _ in range(min(step["levels"], len(stack))):
                    leave(step.get("exc", "Exception"))
            elif op == "probe":
                want = merged()
                want.update(step["explicit"])
                n0 = len(m.log)
                err = None
                try:
                    with sut("read", (TypeError,)):
                        mc.read(SDRAM, 4, **step["explicit"])
                except TypeError as e:
                    err = e
                if "x" not in want or "y" not in want:
                    require(err is not None and len(m.log) == n0,
                            "a read without a chip is not rejected before "
                            "anything is sent", {"context": want})
                else:
                    require(err is None, "read rejected although chip "
                            "coordinates are in force", {"error": repr(err)})
                    for e in m.log[n0:]:
                        require((e["x"], e["y"], e["p"]) ==
                                (want["x"], want["y"], want.get("p", 0)),
                                "a command does not carry the values of the "
                                "explicit arguments / innermost context",
                                {"got": [e["x"], e["y"], e["p"]],
                                 "expected": [want["x"], want["y"],
                                              want.get("p", 0)],
                                 "stack": model})
            require(mc.get_context_arguments() == merged(),
                    "get_context_arguments() is not the merge of the "
                    "enclosing contexts, innermost last",
                    {"got": mc.get_context_arguments(),
                     "expected": merged()})
        while stack:
            leave(False)
    return {"nontrivial": nontrivial,
            "classes": ["depth%d" % min(3, max(
                [0] + [1 for s in case["steps"] if s["op"] == "enter"]))]}


# -------------------------------------------------------------- connections

@st.composite
def strat_conn(draw, tier):
    w = draw(st.sampled_from([12, 24]))
    h = draw(st.sampled_from([12, 24 if tier == "thorough" else 12]))
    # the chip the host is attached to (what sver reports for (255, 255)):
    # (0, 0) on a healthy machine, another Ethernet chip when the machine
    # was booted through another board
    rx, ry = draw(st.sampled_from([(0, 0), (0, 0), (8, 4), (4, 8), (4, 0),
                                   (1, 0), (3, 5), (11, 7), (6, 6)]))
    origins = [(x, y) for x in range(w) for y in range(h)
               if boardtile.is_origin(x, y, rx, ry)]
    up = draw(st.lists(st.sampled_from(origins), unique=True,
                       max_size=len(origins)))
    targets = draw(st.lists(st.tuples(st.integers(0, w - 1),
                                      st.integers(0, h - 1)),
                            min_size=1, max_size=10))
    return {"w": w, "h": h, "up": sorted(map(list, up)),
            "root": [rx, ry],
            # the machine is first seen at half its width (the other boards
            # are switched on later) and discovered a second time
            "grow": w == 24 and draw(st.integers(0, 2)) == 0,
            "targets": [list(t) for t in targets],
            "discover": draw(st.sampled_from([True, True, False]))}


def check_conn(case):
    w_, h_ = case["w"], case["h"]
    root = tuple(case.get("root", (0, 0)))
    m = scamp.Machine(w_, h_, buffer_size=256).populate()
    m.root = root
    up = set(tuple(c) for c in case["up"]) | {root}
    for c in m.chips.values():
        ox, oy = boardtile.board_origin(c.x, c.y, *root)
        c.local_eth = (ox % w_, oy % h_)
        c.eth_up = (c.x, c.y) in up
        c.ip = (10, 1, c.x, c.y)
    for c in m.chips.values():
        c.sync_system_memory(router=False, p2p=(c.x, c.y) == root)
    grow = case.get("grow") and case["discover"] and root[0] < 12
    with World(m) as w:
        for (x, y) in up:
            if (x, y) != root:
                w.add_host("10.1.%d.%d" % (x, y), (x, y))
        with sut("discover_connections"):
            mc = w.controller()
            mc.scp_data_length
            if grow:
                # phase 1: only the left half is there
                hidden = dict((xy, c) for xy, c in m.chips.items()
                              if xy[0] >= 12)
                for xy in hidden:
                    del m.chips[xy]
                for c in m.chips.values():
                    ox, oy = boardtile.board_origin(c.x, c.y, *root)
                    c.local_eth = (ox % 12, oy % h_)
                    c.sync_system_memory(router=False,
                                         p2p=(c.x, c.y) == root)
                up1 = set(u for u in up if u[0] < 12)
                n1 = mc.discover_connections()
                require(n1 == len(up1) - 1, "discover_connections does not "
                        "report the number of new connections",
                        {"got": n1, "expected": len(up1) - 1, "phase": 1})
                for (x, y) in map(tuple, case["targets"]):
                    if x >= 12:
                        continue
                    n0 = len(m.log)
                    mc.read(SDRAM, 4, x, y)
                    ox, oy = boardtile.board_origin(x, y, *root)
                    eth = (ox % 12, oy % h_)
                    host = "10.1.%d.%d" % eth if eth in up1 and \
                        eth != root else "spinn-0-0"
                    for e in m.log[n0:]:
                        require(e["conn"] == host, "a command does not "
                                "travel over the connection of the board "
                                "that holds the target",
                                {"target": [x, y], "phase": 1,
                                 "board_ethernet_chip": list(eth),
                                 "got": e["conn"], "expected": host})
                # phase 2: the right half appears
                m.chips.update(hidden)
                for c in m.chips.values():
                    ox, oy = boardtile.board_origin(c.x, c.y, *root)
                    c.local_eth = (ox % w_, oy % h_)
                    c.sync_system_memory(router=False,
                                         p2p=(c.x, c.y) == root)
                n = mc.discover_connections()
                require(n == len(up) - len(up1), "discover_connections does "
                        "not report the number of new connections",
                        {"got": n, "expected": len(up) - len(up1),
                         "phase": 2})
            elif case["discover"]:
                n = mc.discover_connections()
                require(n == len(up) - 1, "discover_connections does not "
                        "report the number of new connections",
                        {"got": n, "expected": len(up) - 1})
        for (x, y) in map(tuple, case["targets"]):
            n0 = len(m.log)
            with sut("read"):
                mc.read(SDRAM, 4, x, y)
            ox, oy = boardtile.board_origin(x, y, *root)
            eth = (ox % w_, oy % h_)
            if case["discover"] and eth in up and eth != root:
                host = "10.1.%d.%d" % eth
            else:
                host = "spinn-0-0"
            for e in m.log[n0:]:
                require(e["conn"] == host, "a command does not travel over "
                        "the connection of the board that holds the target",
                        {"target": [x, y], "board_ethernet_chip": list(eth),
                         "root_chip": list(root),
                         "got": e["conn"], "expected": host})
                require((e["x"], e["y"]) == (x, y), "wrong destination", {})
    return {"nontrivial": case["discover"] and len(up) >= 2,
            "classes": ["connections%d" % min(len(up), 4)] +
                       (["root-elsewhere"] if root != (0, 0) else []) +
                       (["grown"] if grow else [])}


def _strat(which):
    return lambda tier: strat_call(tier, which)


CLAUSES = [
    Clause("table-complete", check_complete_table,
           enumerate=lambda tier, shard, n: iter([{}] if shard == 0 else []),
           rule="introspection: every wrapped method has a recipe",
           shards={"quick": 1, "thorough": 1}),
    Clause("machine-controller-methods", check_call, strategy=_strat("mc"),
           rule="a method x resolved values x a passing style per contextual "
                "argument (positional, keyword, innermost context, default) "
                "x 0-2 outer decoy contexts x unrelated context entries x "
                "context set by with or by update; the wire is judged "
                "against the destination table and against the same call "
                "with every argument explicit; non-trivial = nesting depth "
                ">= 2 or unrelated context entries",
           examples={"quick": 600, "thorough": 5000},
           shards={"quick": 8, "thorough": 16}),
    Clause("bmp-controller-methods", check_call, strategy=_strat("bmp"),
           rule="as above for the BMP controller; hosts keyed by (cabinet, "
                "frame) and one by (cabinet, frame, board)",
           examples={"quick": 400, "thorough": 3000},
           shards={"quick": 4, "thorough": 16}),
    Clause("context-blocks", check_blocks, strategy=strat_blocks,
           rule="histories of entering plain and application blocks, "
                "updates, normal exits, exits by exception through 1-3 "
                "levels and probe reads; non-trivial = nesting >= 2 or an "
                "exceptional exit",
           examples={"quick": 600, "thorough": 5000},
           shards={"quick": 4, "thorough": 16}),
    Clause("connections", check_conn, strategy=strat_conn,
           rule="12x12 / 24x12 (24x24) machines with drawn sets of working "
                "Ethernet chips, with and without discover_connections, reads "
                "from drawn chips; non-trivial = >= 2 connections discovered",
           examples={"quick": 150, "thorough": 1500},
           shards={"quick": 4, "thorough": 16}),
]
