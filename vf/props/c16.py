"""C16 Fixed-point conversion saturates, is monotone and inverts exactly."""
import math
import warnings
from fractions import Fraction

from hypothesis import strategies as st

from vf.core import Clause, require, sut

PROPERTY_ID = "C16"
LEVEL = "exploration"
IMPORTS = ["rig.type_casts"]
ASSUMPTIONS = [
    "floats are finite and so is their scaled value (|v| < 1e250, n_frac in "
    "-4 .. n_bits+8)",
    "round trip fix->float->fix is asserted for fixed-point values that a "
    "double holds exactly (<= 53 significant bits); wider 64-bit values "
    "cannot survive any float-based converter",
    "array converters: n_bits in {8, 16, 32, 64} (documented), float64 and "
    "float32 input arrays of any shape",
    "deprecated float_to_fix/fix_to_float only for the formats "
    "validate_fp_params accepts",
]


def fa(signed, n_bits, n_frac):
    """(args, kwargs) for a format: by position, by the documented parameter
    names, or mixed - chosen by the format itself."""
    style = (n_bits + n_frac + (1 if signed else 0)) % 3
    if style == 0:
        return (signed, n_bits, n_frac), {}
    if style == 1:
        return (), {"signed": signed, "n_bits": n_bits, "n_frac": n_frac}
    return (signed,), {"n_frac": n_frac, "n_bits": n_bits}


def fr(n_frac):
    return ((n_frac,), {}) if n_frac % 2 else ((), {"n_frac": n_frac})


def limits(signed, n_bits):
    if signed:
        return -(1 << (n_bits - 1)), (1 << (n_bits - 1)) - 1
    return 0, (1 << n_bits) - 1


def model(signed, n_bits, n_frac, v):
    """clamp(trunc_toward_zero(v * 2^n_frac)) in exact arithmetic."""
    lo, hi = limits(signed, n_bits)
    q = Fraction(v) * (Fraction(2) ** n_frac)
    t = int(q)          # Fraction -> int truncates toward zero
    return max(lo, min(hi, t))


def fhex(v):
    return float(v).hex()


def unhex(s):
    return float.fromhex(s)


@st.composite
def fmt(draw, array):
    signed = draw(st.booleans())
    if array:
        n_bits = draw(st.sampled_from([8, 16, 32, 64, 64]))
    else:
        n_bits = draw(st.one_of(st.sampled_from([8, 16, 32, 53, 54, 63, 64]),
                                st.integers(8, 64)))
    n_frac = draw(st.one_of(st.integers(0, n_bits),
                            st.integers(-4, n_bits + 8),
                            st.integers(-16, n_bits + 40)))
    return signed, n_bits, n_frac


def value_strategy(signed, n_bits, n_frac):
    lo, hi = limits(signed, n_bits)
    scale = Fraction(2) ** n_frac

    def near(edge):
        # floats around the real number edge / 2^f
        base = float(Fraction(edge) / scale)
        return st.integers(-3, 3).map(lambda n: _step(base, n))
    in_range = st.tuples(st.integers(lo, hi), st.integers(0, 1 << 20)).map(
        lambda t: float((Fraction(t[0]) + Fraction(t[1], 1 << 20)) / scale))
    far = st.tuples(st.sampled_from([-1, 1]), st.integers(0, 600)).map(
        lambda t: t[0] * math.ldexp(1.0, t[1] + n_bits - n_frac - 2)
        if abs(t[1] + n_bits - n_frac - 2) < 800 else float(t[0]))
    tiny = st.sampled_from([0.0, -0.0, 5e-324, -5e-324, 2.2250738585072014e-308,
                            -2.2250738585072014e-308, 1e-300, -1e-300])
    anyf = st.floats(allow_nan=False, allow_infinity=False, width=64)
    return st.one_of(in_range, near(hi), near(hi + 1), near(lo), near(lo - 1),
                     near(0), near(1), near(-1), far, tiny, anyf).filter(
        lambda v: abs(v) < 1e250).map(fhex)


def _step(v, n):
    for _ in range(abs(n)):
        v = math.nextafter(v, math.inf if n > 0 else -math.inf)
    return v


@st.composite
def strat_scalar(draw, tier=None):
    signed, n_bits, n_frac = draw(fmt(False))
    vals = draw(st.lists(value_strategy(signed, n_bits, n_frac), min_size=1,
                         max_size=8))
    return {"signed": signed, "n_bits": n_bits, "n_frac": n_frac,
            "values": vals}


def _near_end(signed, n_bits, n_frac, v):
    lo, hi = limits(signed, n_bits)
    q = Fraction(v) * Fraction(2) ** n_frac
    if q > hi or q < lo:
        return True
    ulp = Fraction(math.ulp(v)) * Fraction(2) ** n_frac
    return min(abs(q - hi), abs(q - lo)) <= 2 * max(ulp, 1)


def check_scalar(case):
    from rig import type_casts
    signed, n_bits, n_frac = case["signed"], case["n_bits"], case["n_frac"]
    vals = [unhex(s) for s in case["values"]]
    lo, hi = limits(signed, n_bits)
    with sut("float_to_fp"):
        f = type_casts.float_to_fp(*fa(signed, n_bits, n_frac)[0], **fa(signed, n_bits, n_frac)[1])
        got = [f(v) for v in vals]
    det = {"signed": signed, "n_bits": n_bits, "n_frac": n_frac}
    nt = False
    for v, g in zip(vals, got):
        want = model(signed, n_bits, n_frac, v)
        require(int(g) == want, "float_to_fp differs from clamp(trunc(v * "
                "2^n_frac))", dict(det, value=v.hex(), value_repr=repr(v),
                                   got=int(g), expected=want))
        require(lo <= int(g) <= hi, "float_to_fp leaves the format's range",
                dict(det, value=v.hex(), got=int(g)))
        q = Fraction(v) * Fraction(2) ** n_frac
        if lo <= q <= hi:
            require(abs(Fraction(int(g)) - q) < 1, "float_to_fp is not within "
                    "one least-significant step of an in-range input",
                    dict(det, value=v.hex(), got=int(g)))
        nt = nt or _near_end(signed, n_bits, n_frac, v) or n_bits >= 54
    order = sorted(range(len(vals)), key=lambda i: vals[i])
    for a, b in zip(order, order[1:]):
        require(got[a] <= got[b], "float_to_fp is not monotone",
                dict(det, smaller=vals[a].hex(), larger=vals[b].hex(),
                     got=[int(got[a]), int(got[b])]))
    # deprecated unsigned-word variant agrees modulo two's complement
    deprecated = n_frac >= 0 and (1 if signed else 0) + n_frac <= n_bits
    if deprecated:
        with warnings.catch_warnings():
            warnings.simplefilter("ignore")
            with sut("float_to_fix"):
                g = type_casts.float_to_fix(*fa(signed, n_bits, n_frac)[0], **fa(signed, n_bits, n_frac)[1])
                old = [g(v) for v in vals]
        for v, o, n in zip(vals, old, got):
            require(int(o) == int(n) % (1 << n_bits), "deprecated "
                    "float_to_fix disagrees with float_to_fp modulo 2^n_bits",
                    dict(det, value=v.hex(), value_repr=repr(v),
                         float_to_fix=int(o), float_to_fp=int(n)))
    return {"nontrivial": nt,
            "classes": ["bits>=54" if n_bits >= 54 else "bits<54",
                        "signed" if signed else "unsigned"] +
                       (["deprecated-too"] if deprecated else [])}


# ---------------------------------------------------------------- round trips

@st.composite
def strat_roundtrip(draw, tier=None):
    signed, n_bits, n_frac = draw(fmt(False))
    lo, hi = limits(signed, n_bits)

    def exact(k):
        return float(k) == k and int(float(k)) == k
    ks = st.one_of(
        st.integers(lo, hi),
        st.sampled_from([lo, lo + 1, hi, hi - 1, 0, 1, min(hi, 1 << 52),
                         min(hi, (1 << 53) - 1), min(hi, 1 << 53)]),
        st.tuples(st.integers(0, (1 << 53) - 1), st.integers(0, 11)).map(
            lambda t: max(lo, min(hi, t[0] << t[1]))),
        st.integers(-(1 << 53), 1 << 53).map(lambda k: max(lo, min(hi, k))),
    ).filter(exact)
    return {"signed": signed, "n_bits": n_bits, "n_frac": n_frac,
            "ks": draw(st.lists(ks, min_size=1, max_size=8))}


NP_DTYPES = {(False, 8): "uint8", (True, 8): "int8", (False, 16): "uint16",
             (True, 16): "int16", (False, 32): "uint32", (True, 32): "int32",
             (False, 64): "uint64", (True, 64): "int64"}


def check_roundtrip(case):
    import numpy as np
    from rig import type_casts
    signed, n_bits, n_frac = case["signed"], case["n_bits"], case["n_frac"]
    det = {"signed": signed, "n_bits": n_bits, "n_frac": n_frac}
    with sut("float_to_fp/fp_to_float"):
        f = type_casts.float_to_fp(*fa(signed, n_bits, n_frac)[0], **fa(signed, n_bits, n_frac)[1])
        g = type_casts.fp_to_float(*fr(n_frac)[0], **fr(n_frac)[1])
    for k in case["ks"]:
        with sut("fp_to_float"):
            v = g(k)
        want = float(Fraction(k) / Fraction(2) ** n_frac)
        require(float(v) == want, "fp_to_float is not value / 2^n_frac",
                dict(det, k=k, got=repr(v), expected=repr(want)))
        with sut("float_to_fp"):
            back = f(v)
        require(int(back) == k, "fix -> float -> fix does not return the "
                "value unchanged", dict(det, k=k, float=repr(v),
                                        back=int(back)))
        if n_frac >= 0 and (1 if signed else 0) + n_frac <= n_bits:
            with warnings.catch_warnings():
                warnings.simplefilter("ignore")
                with sut("fix_to_float"):
                    a_, k_ = fa(signed, n_bits, n_frac)
                    old = type_casts.fix_to_float(*a_, **k_)(
                        k % (1 << n_bits))
            require(float(old) == float(v), "deprecated fix_to_float "
                    "disagrees with fp_to_float", dict(det, k=k,
                                                       got=repr(old)))
    if n_bits in (8, 16, 32, 64):
        arr = np.array(case["ks"], dtype=NP_DTYPES[(signed, n_bits)])
        with sut("NumpyFixToFloatConverter"):
            f2f = type_casts.NumpyFixToFloatConverter(*fr(n_frac)[0], **fr(n_frac)[1])
            out = f2f(arr)
        require(out.shape == arr.shape, "NumpyFixToFloatConverter changes "
                "the shape", det)
        for k, o in zip(case["ks"], out.tolist()):
            require(o == float(g(k)), "NumpyFixToFloatConverter disagrees "
                    "with fp_to_float", dict(det, k=k, got=repr(o)))
        # the same array refilled in place (a buffer the caller keeps) and
        # converted again with the same converter
        with sut("NumpyFixToFloatConverter, refilled array"):
            arr[...] = arr[::-1] // 2
            ks2 = arr.tolist()
            out2 = f2f(arr)
        for k, o in zip(ks2, out2.tolist()):
            require(o == float(g(k)), "NumpyFixToFloatConverter gives a "
                    "stale or wrong result for an array that was refilled in "
                    "place", dict(det, k=k, got=repr(o)))
    big = any(abs(k) >= 1 << 53 for k in case["ks"])
    return {"nontrivial": n_bits >= 54 or any(
        k in limits(signed, n_bits) for k in case["ks"]),
        "classes": ["bits>=54" if n_bits >= 54 else "bits<54"] +
                   (["k>=2^53"] if big else [])}


# -------------------------------------------------------------------- arrays

@st.composite
def strat_numpy(draw, tier=None):
    signed, n_bits, n_frac = draw(fmt(True))
    shape = draw(st.one_of(
        st.just([]), st.lists(st.integers(0, 4), min_size=1, max_size=3)))
    n = 1
    for s in shape:
        n *= s
    vals = draw(st.lists(value_strategy(signed, n_bits, n_frac), min_size=n,
                         max_size=n))
    return {"signed": signed, "n_bits": n_bits, "n_frac": n_frac,
            "shape": shape, "values": vals,
            "float32": draw(st.integers(0, 5)) == 0,
            # whole numbers handed over in an integer array
            "int_dtype": draw(st.sampled_from(
                [None] * 6 + ["int8", "int16", "int32", "int64", "uint8",
                              "uint32"])),
            "layout": draw(st.sampled_from(["C", "C", "F", "T", "strided"])),
            # the same values repeated to fill a large array (weight
            # matrices, whole populations): long rows, many rows, one row
            "big": draw(st.sampled_from(
                [None] * 11 + [[2, 70000], [70000, 2], [1, 100000], [140000],
                               [65537], [1, 65537], [65536], [3, 300, 300],
                               [2, 350, 200], [300, 300, 2], [65537, 1]]))}


def check_numpy(case):
    import numpy as np
    from rig import type_casts
    signed, n_bits, n_frac = case["signed"], case["n_bits"], case["n_frac"]
    det = {"signed": signed, "n_bits": n_bits, "n_frac": n_frac,
           "shape": case["shape"]}
    vals = [unhex(s) for s in case["values"]]
    dt = np.float32 if case["float32"] else np.float64
    with np.errstate(all="ignore"):
        arr = np.array(vals, dtype=np.float64).astype(dt).reshape(
            case["shape"])
    idt = case.get("int_dtype")
    if idt and not case["float32"]:
        info = np.iinfo(idt)
        with np.errstate(all="ignore"):
            whole = np.clip(np.nan_to_num(np.trunc(arr), nan=0.0),
                            float(info.min) / 2, float(info.max) / 2)
        arr = whole.astype(idt)
        dt = np.dtype(idt)
    else:
        idt = None
    # memory layouts other than a fresh C-contiguous array
    layout = case.get("layout", "C")
    if layout == "F" and arr.ndim >= 2:
        arr = np.asfortranarray(arr)
    elif layout == "T" and arr.ndim >= 2:
        arr = np.ascontiguousarray(arr.T).T
    elif layout == "strided" and arr.ndim >= 1:
        wide = np.zeros(arr.shape[:-1] + (2 * arr.shape[-1],), dtype=dt)
        wide[..., ::2] = arr
        arr = wide[..., ::2]
    if case["float32"]:
        if not np.all(np.isfinite(arr)):
            return {"nontrivial": False, "classes": ["float32-overflow"]}
    if layout == "strided" and arr.ndim == 0:
        arr = arr[()]                      # a numpy scalar, not an array
    before = arr.copy()
    with warnings.catch_warnings():
        warnings.simplefilter("ignore")
        with np.errstate(all="ignore"):
            with sut("NumpyFloatToFixConverter"):
                a_, k_ = fa(signed, n_bits, n_frac)
                conv = type_casts.NumpyFloatToFixConverter(*a_, **k_)
                out = conv(arr)
                kept = np.array(out, copy=True)
                # a converter object is re-usable: other values of the same
                # shape, then the first input again
                other = conv(np.negative(arr) if np.asarray(arr).dtype.kind
                             in "fi" else arr)
                intact = np.array_equal(np.asarray(out), kept)
                again = conv(arr)
                # the caller refills the very same array in place (a buffer
                # it keeps) and converts it once more with the same converter
                refilled = None
                a_ = np.asarray(arr)
                if isinstance(arr, np.ndarray) and a_.size and \
                        a_.dtype.kind == "f" and a_.flags.writeable:
                    keep = a_.copy()
                    a_[...] = -(a_ / 2)
                    refilled = (np.array(conv(arr), copy=True),
                                np.array(conv(a_.copy()), copy=True))
                    a_[...] = keep
    if refilled is not None:
        require(np.array_equal(refilled[0], refilled[1]), "a converter gives "
                "another result for an array refilled in place than for a "
                "new array holding the same values", det)
    require(intact,
            "a result returned earlier changed when the converter was used "
            "again", det)
    require(np.array_equal(np.asarray(out), np.asarray(again)),
            "a converter gives a different result when called a second time",
            det)
    require(np.array_equal(before, arr), "NumpyFloatToFixConverter modified "
            "its input", det)
    require(isinstance(out, np.ndarray) and
            out.dtype == np.dtype(NP_DTYPES[(signed, n_bits)]),
            "wrong dtype of the converted array",
            dict(det, dtype=str(getattr(out, "dtype", type(out)))))
    require(list(out.shape) == list(case["shape"]), "shape of the converted "
            "array differs from the input's", dict(det, got=list(out.shape)))
    with sut("float_to_fp"):
        f = type_casts.float_to_fp(*fa(signed, n_bits, n_frac)[0], **fa(signed, n_bits, n_frac)[1])
    nt = False
    flat_in = arr.reshape(-1).tolist()
    flat_out = out.reshape(-1).tolist()
    for v, o in zip(flat_in, flat_out):
        v = float(v)
        want = model(signed, n_bits, n_frac, v)
        require(int(o) == want and int(f(v)) == want,
                "array converter disagrees with the scalar conversion",
                dict(det, value=v.hex(), value_repr=repr(v), array=int(o),
                     scalar=int(f(v)), expected=want))
        nt = nt or _near_end(signed, n_bits, n_frac, v)
    big = case.get("big")
    if big and flat_in:
        # conversion is element by element: a large array filled with the
        # values just checked converts to the results just checked
        big_in = np.resize(np.asarray(arr).reshape(-1), big)
        big_before = big_in.copy()
        with warnings.catch_warnings():
            warnings.simplefilter("ignore")
            with np.errstate(all="ignore"):
                with sut("NumpyFloatToFixConverter (large array)"):
                    big_out = conv(big_in)
        bdet = dict(det, big_shape=big)
        require(isinstance(big_out, np.ndarray) and
                list(big_out.shape) == list(big) and
                big_out.dtype == out.dtype, "shape or dtype of a large "
                "converted array differs from the input's / the format's",
                bdet)
        want_big = np.resize(np.asarray(out).reshape(-1), big)
        bad = np.flatnonzero(big_out.reshape(-1) != want_big.reshape(-1))
        require(bad.size == 0, "array converter disagrees with the scalar "
                "conversion in a large array",
                dict(bdet, first_bad_index=int(bad[0]) if bad.size else None))
        require(np.array_equal(big_before, big_in),
                "NumpyFloatToFixConverter modified its (large) input", bdet)
    return {"nontrivial": nt and len(flat_in) > 0,
            "classes": (["large-array"] if big and flat_in else []) +
                       ["bits%d" % n_bits, "ndim%d" % len(case["shape"]),
                        "layout-" + layout] +
                       (["float32"] if case["float32"] else []) +
                       (["dtype-" + idt] if idt else []) +
                       (["empty"] if not flat_in else [])}


CLAUSES = [
    Clause("scalar", check_scalar, strategy=strat_scalar,
           rule="format (signed, 8-64 bits, n_frac -4..n_bits+8) x up to 8 "
                "floats built around the range ends (exact arithmetic, +-3 "
                "ulp), in range, far outside, subnormal, arbitrary; "
                "non-trivial = a value within 2 ulp of a range end or outside "
                "the range, or n_bits >= 54",
           examples={"quick": 4000, "thorough": 60000},
           shards={"quick": 4, "thorough": 16}),
    Clause("roundtrip", check_roundtrip, strategy=strat_roundtrip,
           rule="format x up to 8 fixed-point values exactly representable "
                "as doubles (range ends, <=53-bit values shifted, random); "
                "non-trivial = n_bits >= 54 or a range end",
           examples={"quick": 3000, "thorough": 40000},
           shards={"quick": 4, "thorough": 16}),
    Clause("numpy", check_numpy, strategy=strat_numpy,
           rule="format (8/16/32/64 bits) x array shape (0-d, empty, up to 3 "
                "dimensions) x values as in 'scalar'; non-trivial = non-empty "
                "array with a value at/beyond a range end",
           examples={"quick": 3000, "thorough": 40000},
           shards={"quick": 4, "thorough": 16}),
]
