"""C04 Table minimisation never changes where any matched key is routed."""
import json

from hypothesis import strategies as st

from vf.core import Clause, Violation, require, sut
from vf.gen import tables as gt
from vf.oracle import firstmatch as fm

PROPERTY_ID = "C04"
LEVEL = "exploration"
IMPORTS = ["rig.routing_table", "rig.routing_table.ordered_covering",
           "rig.routing_table.remove_default_routes",
           "rig.routing_table.minimise"]
ASSUMPTIONS = [
    "tables differ only in <= 6 (quick) / 10 (thorough) active key bits; "
    "the other bits are constants or X in every entry, so equivalence over "
    "all 32-bit keys reduces to the 2^active assignments, which are "
    "enumerated completely (common-X bits tried at 0, 1 and alternating)",
    "keys are normalised (key & ~mask == 0): '!' bits are outside the domain",
    "ordered covering is given orthogonal tables (any order) or tables in "
    "increasing order of generality; default-route removal any ordered table",
    "minimise_table(methods=()) failing on a table whose length equals the "
    "target (the identity method uses '<') is documented behaviour of that "
    "degenerate configuration and is not asserted against",
]

METHOD_SETS = [["rdr"], ["oc"], ["rdr", "oc"], ["oc", "rdr"], None, []]


def target_strategy(n):
    return st.one_of(st.none(), st.integers(0, n + 2),
                     st.integers(max(0, n - 3), n))


@st.composite
def strat_rdr(draw, tier):
    big = tier == "thorough"
    if draw(st.integers(0, 2)) == 0:
        # tables of a hundred entries and more (real tables have hundreds)
        tab = draw(gt.table(10 if big else 7, 300 if big else 110,
                            min_entries=40))
        order = draw(st.sampled_from([None, "ascending", "descending"]))
        if order and tab["kind"] in ("free", "orthogonal"):
            # ... listed in the numerical order of their keys, as tables
            # generated net by net from consecutive keys are
            tab["entries"] = sorted(
                tab["entries"], key=lambda e: gt.pattern_key_mask(
                    tab, e["pat"])[0], reverse=order == "descending")
    else:
        tab = draw(gt.table(10 if big else 6, 60 if big else 24))
    return {"table": tab, "fn": "rdr",
            "target": draw(target_strategy(len(tab["entries"])))}


FIXED_KEYSPACE = {"bits": [0, 1, 2, 3], "const_mask": 0xfffffff0,
                  "const_key": 0}


@st.composite
def strat_oc(draw, tier, ks=None):
    big = tier == "thorough"
    tab = draw(gt.table(9 if big else 6, 48 if big else 20,
                        kind=draw(st.sampled_from(["orthogonal",
                                                   "generality",
                                                   "generality"])), ks=ks))
    return {"table": tab, "fn": draw(st.sampled_from(["oc", "oc_raw",
                                                      "oc_staged"])),
            "target": draw(target_strategy(len(tab["entries"])))}


@st.composite
def strat_chain(draw, tier):
    big = tier == "thorough"
    nchips = draw(st.integers(1, 3))
    tabs = []
    # all chips of one machine use the same key format: the tables share one
    # key space (so that anything remembered from one chip's table can meet
    # the next chip's)
    ks = draw(gt.keyspace(8 if big else 5))
    for _ in range(nchips):
        tabs.append(draw(gt.table(8 if big else 5, 30 if big else 12,
                                  kind=draw(st.sampled_from(
                                      ["orthogonal", "generality"])),
                                  ks=ks if draw(st.integers(0, 3)) else
                                  None)))
    # neighbouring chips of one application often hold the same table up to
    # the direction the packets arrive from (or one route): derive some
    # chips' tables from the first chip's by changing a few fields
    for j in range(1, nchips):
        if tabs[0]["entries"] and draw(st.booleans()):
            sib = json.loads(json.dumps(tabs[0]))
            n = len(sib["entries"])
            for i in draw(st.lists(st.integers(0, n - 1), max_size=3,
                                   unique=True)):
                what = draw(st.sampled_from(["sources", "sources", "route",
                                             "both"]))
                e = sib["entries"][i]
                if what in ("sources", "both"):
                    e["sources"] = draw(st.one_of(
                        gt.sources_strategy(),
                        st.integers(0, 5).map(lambda x: [x])))
                if what in ("route", "both"):
                    e["route"] = draw(gt.route_strategy())
            tabs[j] = sib
    methods = draw(st.sampled_from(METHOD_SETS))
    style = draw(st.sampled_from(["table", "tables-int", "tables-dict",
                                  "tables-none"]))
    targets = [draw(target_strategy(len(t["entries"]))) for t in tabs]
    if draw(st.booleans()):
        targets = [targets[0]] * len(targets)
    return {"tables": tabs, "methods": methods, "style": style,
            "targets": targets}


@st.composite
def strat_sequence(draw, tier):
    """Several tables over one small key space, minimised one after another
    in one process."""
    ks = draw(st.sampled_from([FIXED_KEYSPACE, FIXED_KEYSPACE,
                               {"bits": [0, 1, 2], "const_mask": 0xfffffff8,
                                "const_key": 0}]))
    n = draw(st.integers(2, 8 if tier == "quick" else 14))
    tabs = [draw(gt.table(4, 8, kind=draw(st.sampled_from(
        ["generality", "generality", "orthogonal"])), ks=ks))
        for _ in range(n)]
    return {"tables": tabs,
            "fns": [draw(st.sampled_from(["oc", "oc", "oc_raw", "table"]))
                    for _ in range(n)]}


def _reset_mutable_defaults(fn):
    for d in (fn.__defaults__ or ()):
        if isinstance(d, (dict, set, list)):
            d.clear()


def check_sequence(case):
    """Each minimisation must be right whatever was minimised before it."""
    from rig.routing_table import ordered_covering as oc
    from rig.routing_table import minimise_table
    # cases are independent of each other: empty anything an earlier case may
    # have left in a mutable default argument
    _reset_mutable_defaults(oc.ordered_covering)
    merged = 0
    for i, (tab, fn) in enumerate(zip(case["tables"], case["fns"])):
        original = gt.model_table(tab)
        table = gt.rig_table(tab)
        f = {"methods": None} if fn == "table" else fn
        kind, res = _check_outcome(tab, original, f, table, None,
                                   "table %d of the sequence (%s)" % (i, fn))
        if kind == "ok" and "merged" in _classes(original, res):
            merged += 1
    return {"nontrivial": merged >= 2,
            "classes": ["merges>=2"] if merged >= 2 else []}


def _methods(names):
    from rig.routing_table import ordered_covering as oc
    from rig.routing_table import remove_default_routes as rdr
    table = {"rdr": rdr.minimise, "oc": oc.minimise}
    return tuple(table[n] for n in names)


def _judge(tab, original, result, what):
    """result (rig entries) must route every originally matched key alike."""
    res = gt.from_rig(result)
    require(len(res) <= len(original), "%s: result is longer than the input"
            % what, {"input": len(original), "result": len(res)})
    bad = fm.compare(original, res, tab["bits"], gt.base_keys(tab))
    if bad is not None:
        bad = dict(bad, key=hex(bad["key"]))
        raise Violation(
            "%s: a key matched by the original table is routed differently "
            "by the minimised table (%s)" % (what, bad["why"]),
            {"disagreement": bad,
             "original": [_show(e) for e in original],
             "result": [_show(e) for e in res]})
    return res


def _show(e):
    k, m, route, sources = e
    pat = "".join(("1" if k & b else "0") if m & b else "X"
                  for b in (1 << (31 - i) for i in range(32)))
    return "%s -> %s (from %s)" % (pat, sorted(route),
                                   sorted(sources, key=repr))


def _classes(original, res):
    cls = []
    if len(res) < len(original):
        cls.append("shrunk")
    orig_km = set((e[0], e[1]) for e in original)
    if any((e[0], e[1]) not in orig_km for e in res):
        cls.append("merged")
    return cls


def _run_single(fn, table, target):
    """-> ("ok", entries) or ("failed", exc)"""
    from rig.routing_table import MinimisationFailedError
    from rig.routing_table import ordered_covering as oc
    from rig.routing_table import remove_default_routes as rdr
    try:
        with sut(fn, (MinimisationFailedError,)):
            if fn == "rdr":
                return "ok", rdr.minimise(table, target)
            elif fn == "oc":
                return "ok", oc.minimise(table, target)
            elif fn == "oc_raw":
                out, aliases = oc.ordered_covering(table, target)
                require(isinstance(aliases, dict), "ordered_covering does "
                        "not return an aliases dictionary", {})
                return "ok", out
            elif fn == "oc_staged":
                # "update an already minimised table": stop half way, then
                # carry on from that table with the aliases it came with
                half = (len(table) + 1) // 2
                first, al = oc.ordered_covering(table, half, no_raise=True)
                kept = dict((k, set(v)) for k, v in al.items())
                out, _ = oc.ordered_covering(first, target, aliases=al)
                require(dict((k, set(v)) for k, v in al.items()) == kept,
                        "ordered_covering changed the aliases dictionary it "
                        "was given", {})
                return "ok", out
            else:
                from rig.routing_table import minimise_table
                if fn["methods"] is None:
                    return "ok", minimise_table(table, target)
                return "ok", minimise_table(table, target,
                                            _methods(fn["methods"]))
    except MinimisationFailedError as e:
        return "failed", e


def _check_outcome(tab, original, fn, table, target, what):
    kind, out = _run_single(fn, table, target)
    name = fn if isinstance(fn, str) else "minimise_table%r" % (
        fn["methods"],)
    if kind == "ok":
        res = _judge(tab, original, out, what)
        if target is not None:
            require(len(res) <= target, "%s: result longer than the target "
                    "length yet no MinimisationFailedError" % what,
                    {"target": target, "result": len(res)})
        return "ok", res
    exc = out
    require(target is not None, "%s: MinimisationFailedError without a "
            "target length" % what, {})
    require(exc.target_length == target, "%s: error reports a different "
            "target length" % what, {"target": target,
                                     "reported": exc.target_length})
    # the best size reached = what the same method reaches without a target
    kind2, best = _run_single(fn, table, None)
    require(kind2 == "ok", "%s: fails even without a target" % what, {})
    degenerate = (not isinstance(fn, str) and fn["methods"] == [] and
                  len(original) == target)
    if not degenerate:
        require(exc.final_length is not None and exc.final_length > target,
                "%s: MinimisationFailedError although the reported best "
                "size meets the target" % what,
                {"target": target, "final_length": exc.final_length})
    require(exc.final_length == len(best) and
            exc.final_length <= len(original),
            "%s: MinimisationFailedError does not report the best size "
            "reached" % what,
            {"target": target, "final_length": exc.final_length,
             "reached_without_target": len(best), "input": len(original)})
    return "failed", None


def check_single(case):
    tab = case["table"]
    original = gt.model_table(tab)
    table = gt.rig_table(tab)
    kind, res = _check_outcome(tab, original, case["fn"], table,
                               case["target"], case["fn"])
    routes = set(e[2] for e in original)
    cls = [tab["kind"], "target-none" if case["target"] is None else "target"]
    if isinstance(case["fn"], str):
        cls.append("fn-" + case["fn"])
    if kind == "failed":
        return {"documented": True, "nontrivial": False,
                "classes": cls + ["minimisation-failed"]}
    cls += _classes(original, res)
    return {"nontrivial": len(res) < len(original) and len(routes) >= 2,
            "classes": cls}


def check_chain(case):
    from rig.routing_table import MinimisationFailedError, minimise_tables
    tabs = case["tables"]
    style = case["style"]
    methods = case["methods"]
    cls = [style, "methods=%s" % ("default" if methods is None
                                  else "+".join(methods) or "none")]
    nt = False
    if style == "table":
        tab = tabs[0]
        original = gt.model_table(tab)
        kind, res = _check_outcome(tab, original, {"methods": methods},
                                   gt.rig_table(tab), case["targets"][0],
                                   "minimise_table")
        if kind == "failed":
            return {"documented": True, "classes": cls + ["failed"]}
        return {"nontrivial": len(res) < len(original) and
                len(set(e[2] for e in original)) >= 2,
                "classes": cls + _classes(original, res)}
    chips = [(i, 2 * i + 1) for i in range(len(tabs))]
    rig_tabs = dict((c, gt.rig_table(t)) for c, t in zip(chips, tabs))
    if style == "tables-int":
        target = case["targets"][0]
        per_chip = dict((c, target) for c in chips)
    elif style == "tables-none":
        target = None
        per_chip = dict((c, None) for c in chips)
    else:
        target = dict(zip(chips, case["targets"]))
        per_chip = dict(target)
    kwargs = {} if methods is None else {"methods": _methods(methods)}
    try:
        with sut("minimise_tables", (MinimisationFailedError,)):
            out = minimise_tables(dict(rig_tabs), target, **kwargs)
    except MinimisationFailedError as exc:
        require(exc.chip in chips, "minimise_tables: the error does not name "
                "a chip of the input", {"chip": repr(exc.chip)})
        i = chips.index(exc.chip)
        kind, _ = _run_single({"methods": methods}, rig_tabs[exc.chip],
                              per_chip[exc.chip])
        require(kind == "failed", "minimise_tables: the error names a chip "
                "whose table can be minimised to its target",
                {"chip": list(exc.chip), "target": per_chip[exc.chip]})
        require(exc.target_length == per_chip[exc.chip], "minimise_tables: "
                "the error reports another target than the chip's",
                {"chip": list(exc.chip)})
        return {"documented": True, "classes": cls + ["failed"]}
    for c, tab in zip(chips, tabs):
        original = gt.model_table(tab)
        res = _judge(tab, original, out.get(c, []), "minimise_tables")
        if per_chip[c] is not None:
            require(len(res) <= per_chip[c], "minimise_tables: a chip's "
                    "table is longer than its target", {"chip": list(c)})
        require(c not in out or len(out[c]) > 0, "minimise_tables: empty "
                "table not omitted", {"chip": list(c)})
        if len(res) < len(original) and len(set(e[2] for e in original)) > 1:
            nt = True
    require(set(out) <= set(chips), "minimise_tables: result has a chip that "
            "was not in the input", {})
    return {"nontrivial": nt, "classes": cls}


RULE = ("non-trivial = the result is shorter than the input (a merge or a "
        "removal happened) and the table has >= 2 distinct routes")

def check_fuzzed(case):
    """Target of the Atheris campaign: one minimiser on a decoded table."""
    if case["fn"] == "rdr" or all(
            a["pat"].count("X") <= b["pat"].count("X") for a, b in zip(
                case["table"]["entries"], case["table"]["entries"][1:])):
        return check_single(case)
    return {"nontrivial": False}


CLAUSES = [
    Clause("remove-default-routes", check_single, strategy=strat_rdr,
           rule="orthogonal, generality-ordered and arbitrarily ordered "
                "overlapping tables x target; " + RULE,
           examples={"quick": 1500, "thorough": 30000},
           shards={"quick": 4, "thorough": 16}),
    Clause("ordered-covering", check_single, strategy=strat_oc,
           rule="orthogonal tables in any order and overlapping tables in "
                "increasing generality x target, through minimise() and "
                "ordered_covering(); " + RULE,
           examples={"quick": 1500, "thorough": 30000},
           shards={"quick": 8, "thorough": 16}),
    Clause("fuzz-ordered-covering", check_fuzzed,
           fuzz={"target": "c04", "runs": {"thorough": 60000},
                 "max_len": 64,
                 "corpus": [bytes([3, 0x80, 0]) + bytes(
                     [0x00, 0x10, 0x05, 0x10, 0x0a, 0x10, 0x3f, 0x20]),
                     bytes([2, 1, 1]) + bytes([0, 0x30, 1, 0x30, 4, 0x50]),
                     bytes([5, 0x80, 0]) + bytes(range(40))]},
           rule="Atheris (thorough tier only) on the merge-refinement code: "
                "bytes -> (active bits, up to 24 entries in increasing "
                "generality, target, minimiser) -> exhaustive first-match "
                "equivalence; coverage of ordered_covering.py guides the "
                "search",
           examples={"quick": 0, "thorough": 0},
           shards={"quick": 1, "thorough": 4}),
    Clause("sequence", check_sequence, strategy=strat_sequence,
           rule="2-8/14 tables over one 3-4 bit key space minimised one "
                "after another in the same process (ordered covering, raw and "
                "through minimise_table); every result is judged on its own: "
                "nothing may be remembered from earlier tables; non-trivial = "
                ">= 2 of the tables were merged",
           examples={"quick": 1200, "thorough": 20000},
           shards={"quick": 4, "thorough": 16}, isolate=True),
    Clause("front-end", check_chain, strategy=strat_chain,
           rule="minimise_table / minimise_tables over 1-3 chips with every "
                "method subset and order, int / dict / None targets; " + RULE,
           examples={"quick": 1000, "thorough": 20000},
           shards={"quick": 4, "thorough": 16}),
]
