#!/bin/bash
# MANIFEST.setup_cmd: offline set-up.  hypothesis must be importable by /venv/bin/python;
# jsonschema (evidence validation) and atheris (thorough-tier fuzz clauses) go to /verif/.deps.
HERE="$(cd "$(dirname "${BASH_SOURCE[0]}")" && pwd)"
cd "$HERE" || exit 2
W=/opt/veriftools/wheels
export PIP_NO_INDEX=1 PIP_DISABLE_PIP_VERSION_CHECK=1
/venv/bin/python -c "import hypothesis" 2>/dev/null || \
    /venv/bin/pip install -q --no-index --find-links $W hypothesis || \
    /venv/bin/pip install -q --no-index --find-links $W --target "$HERE/.deps" hypothesis
mkdir -p "$HERE/.deps"
PYTHONPATH="$HERE/.deps" /venv/bin/python -c "import jsonschema" 2>/dev/null || \
    /venv/bin/pip install -q --no-index --find-links $W --target "$HERE/.deps" jsonschema || true
PYTHONPATH="$HERE/.deps" /venv/bin/python -c "import atheris" 2>/dev/null || \
    /venv/bin/pip install -q --no-index --find-links $W --target "$HERE/.deps" atheris || true
PYTHONPATH="$HERE/.deps" /venv/bin/python -c "import hypothesis; print('hypothesis', hypothesis.__version__)" || exit 1
exit 0
